// Package c02: the Router settles each message exactly once: Ack iff the chain succeeded and every
// output was accepted by the handler's publisher.
package c02

import (
	"context"
	"fmt"

	"github.com/ThreeDotsLabs/watermill/message"

	"verif/explore"
	"verif/harness/hx"
	"verif/harness/reg"
	"verif/vs"
)

type invocation struct {
	uuid string
	b    hx.Behaviour
	copy *message.Message
}

// expectation for one consumed message
type expect struct {
	settle  string // "acked" | "nacked"
	publish bool   // Publish must be called with this message's outputs
	nout    int
}

func reference(b hx.Behaviour, po hx.PubOutcome, withPub bool) expect {
	nout := 0
	switch b {
	case hx.BOut1, hx.BAckOK, hx.BNackOK:
		nout = 1
	case hx.BOut2:
		nout = 2
	}
	e := expect{nout: nout}
	switch b {
	case hx.BErr, hx.BErrOut, hx.BPanicStr, hx.BPanicErr, hx.BPanicNil, hx.BCanceledOut, hx.BWrappedCanceledOut, hx.BRootlessErrOut, hx.BTypedNilErrOut:
		e.settle = "nacked"
		return e
	case hx.BAckErr, hx.BAckPanic:
		e.settle = "acked" // the handler's own settlement stands
		return e
	case hx.BNackErr, hx.BNackPanic:
		e.settle = "nacked"
		return e
	case hx.BAckAsyncErr:
		e.settle = "acked or nacked, not both" // whichever of the two settlements comes first stands
		return e
	}
	// chain returned (outputs, nil)
	if nout > 0 && withPub {
		e.publish = true
	}
	switch b {
	case hx.BAckOK:
		e.settle = "acked"
		return e
	case hx.BNackOK:
		e.settle = "nacked"
		return e
	}
	if nout == 0 {
		e.settle = "acked"
		return e
	}
	if !withPub {
		e.settle = "nacked" // outputs in a no-publisher handler
		return e
	}
	if po == hx.PubOK {
		e.settle = "acked"
	} else {
		e.settle = "nacked"
	}
	return e
}

type spec struct {
	WithPub    bool
	NilPub     bool // (with WithPub false) registered through AddHandler with a nil publisher instead of AddNoPublisherHandler
	MW         int  // recording pass-through middlewares in front
	N          int  // messages
	InFlight   bool // several messages in flight concurrently
	Subset     bool // restricted behaviour alphabet (concurrent scenarios)
	EmptyTopic bool // (with WithPub) the handler publishes to the empty topic: a topic like any other for a handler that has a publisher
	Stop       bool // the handler is stopped (Handler.Stop) while its messages arrive: what the router still takes, it handles
	C          int
	DPOR       bool
}

func (s spec) name() string {
	k := "pub"
	if !s.WithPub {
		k = "nopub"
	}
	if s.NilPub {
		k = "nilpub"
	}
	m := "seq"
	if s.InFlight {
		m = "inflight"
	}
	if s.Stop {
		m += "+stop"
	}
	if s.EmptyTopic {
		m += "+empty-publish-topic"
	}
	return fmt.Sprintf("%s/mw%d/N%d/%s", k, s.MW, s.N, m)
}

var subset = []hx.Behaviour{hx.BOut1, hx.BErr, hx.BPanicStr, hx.BAckOK, hx.BOut0}

func scenario(sp spec) *explore.Scenario {
	return &explore.Scenario{Name: sp.name(), C: sp.C, DPOR: sp.DPOR, DPORSeconds: 20, Opts: vs.Options{LazyStart: sp.InFlight}, Body: func() { body(sp) }}
}

func body(sp spec) {
	script := map[string][]*message.Message{}
	for i := 0; i < sp.N; i++ {
		script["in"] = append(script["in"], hx.Msg(fmt.Sprintf("m%d", i)))
	}
	sub := hx.NewScriptSub("sub", script)
	sub.InFlight = sp.InFlight
	pub := hx.NewScriptPub("pub")
	inv := map[string]*invocation{}
	pubOutcome := map[string]hx.PubOutcome{}
	// publisher outcome per consumed message, chosen when the call arrives
	pub.Outcome = func(call int, topic string, msgs []*message.Message) hx.PubOutcome {
		from := ""
		if len(msgs) > 0 {
			from = msgs[0].Metadata.Get("from")
		}
		po := hx.PubOutcome(vs.Choose(6, 0, "publisher outcome")) // ok, error, panic, error after accepting, error wrapping context.Canceled, error with no cause underneath
		// the outputs of one consumed message may reach the publisher in one call or in several: they count as
		// accepted only if every one of those calls succeeded
		if prev, seen := pubOutcome[from]; !seen || prev == hx.PubOK {
			pubOutcome[from] = po
		}
		return po
	}
	probes := map[string]string{}
	pub.Probe = func(c *hx.PubCall) string {
		if len(c.Msgs) == 0 {
			return ""
		}
		from := c.Msgs[0].Metadata.Get("from")
		if iv := inv[from]; iv != nil {
			if prev, seen := probes[from]; !seen || prev == "unsettled" {
				probes[from] = hx.SettlementOf(iv.copy)
			}
		}
		return ""
	}
	r, err := message.NewRouter(message.RouterConfig{}, nil)
	if err != nil {
		vs.Fail("setup", "%v", err)
		return
	}
	mwTrace := 0
	for i := 0; i < sp.MW; i++ {
		r.AddMiddleware(func(h message.HandlerFunc) message.HandlerFunc {
			return func(m *message.Message) ([]*message.Message, error) {
				mwTrace++
				return h(m)
			}
		})
	}
	handle := func(m *message.Message) (hx.Behaviour, *invocation) {
		var b hx.Behaviour
		if sp.Subset {
			b = subset[vs.Choose(len(subset), 0, "behaviour")]
		} else {
			b = hx.Behaviour(vs.Choose(int(hx.NBehaviours), 0, "behaviour"))
		}
		if inv[m.UUID] != nil {
			vs.Fail("handled-once", "message %s handled twice", m.UUID)
		}
		iv := &invocation{uuid: m.UUID, b: b, copy: m}
		inv[m.UUID] = iv
		return b, iv
	}
	var hnd *message.Handler
	ptopic := "out"
	if sp.EmptyTopic {
		ptopic = ""
	}
	if sp.WithPub {
		hnd = r.AddHandler("h", "in", sub, ptopic, pub, func(m *message.Message) ([]*message.Message, error) {
			b, _ := handle(m)
			return b.Do(m)
		})
	} else if sp.NilPub {
		// AddHandler accepts a nil publisher: whatever the chain returns then has nowhere to go
		r.AddHandler("h", "in", sub, "", nil, func(m *message.Message) ([]*message.Message, error) {
			b, _ := handle(m)
			return b.Do(m)
		})
	} else {
		// outputs can only come from a middleware here
		h := r.AddNoPublisherHandler("h", "in", sub, func(m *message.Message) error {
			b, _ := handle(m)
			_, err := b.Do(m)
			return err
		})
		h.AddMiddleware(func(next message.HandlerFunc) message.HandlerFunc {
			return func(m *message.Message) ([]*message.Message, error) {
				_, err := next(m)
				iv := inv[m.UUID]
				if err != nil || iv == nil {
					return nil, err
				}
				switch iv.b {
				case hx.BOut1, hx.BAckOK, hx.BNackOK:
					return hx.Outputs(m, 1), nil
				case hx.BOut2:
					return hx.Outputs(m, 2), nil
				case hx.BOutEmpty:
					return make([]*message.Message, 0, 1), nil // e.g. a filtering middleware that kept nothing
				}
				return nil, nil
			}
		})
	}
	runDone := false
	go func() {
		if err := r.Run(context.Background()); err != nil {
			vs.Fail("run-error", "%v", err)
		}
		runDone = true
	}()
	<-r.Running()
	if sp.Stop {
		go hnd.Stop()
	}
	vs.Quiesce()

	// ---- oracle -------------------------------------------------------------------------------
	ds := sub.Snapshot()
	if len(ds) != sp.N && !sp.Stop {
		vs.Fail("intake", "subscriber handed out %d of %d messages at quiescence", len(ds), sp.N)
	}
	calls := pub.Snapshot()
	callFor := map[string][]*hx.PubCall{}
	for _, c := range calls {
		if len(c.Msgs) == 0 {
			vs.Fail("no-empty-publish", "Publish called with no messages")
			continue
		}
		if c.Topic != ptopic {
			vs.Fail("publish-topic", "Publish on topic %q", c.Topic)
		}
		from := c.Msgs[0].Metadata.Get("from")
		callFor[from] = append(callFor[from], c)
	}
	summary := ""
	for _, d := range ds {
		iv := inv[d.UUID]
		if iv == nil && sp.Stop {
			// the handler was stopped before the router took this message: it was never handled, so nobody settled it
			if got := hx.SettlementOf(d.Msg); got != "unsettled" {
				vs.Fail("handled-before-settled", "message %s was %s although the handler chain was never invoked for it (the handler was being stopped)", d.UUID, got)
			}
			continue
		}
		if iv == nil {
			vs.Fail("handled", "message %s was handed out but the handler was never invoked", d.UUID)
			continue
		}
		po, called := pubOutcome[d.UUID]
		e := reference(iv.b, po, sp.WithPub)
		got := hx.SettlementOf(d.Msg)
		summary += fmt.Sprintf("%s:%s/%d=%s ", d.UUID, iv.b, po, got)
		if e.settle == "acked or nacked, not both" {
			if got != "acked" && got != "nacked" {
				vs.Fail("settlement", "message %s, handler behaviour %q: settled %q, expected exactly one of acked / nacked", d.UUID, iv.b, got)
			}
		} else if got != e.settle {
			vs.Fail("settlement", "message %s, handler behaviour %q, publisher outcome %d (called=%v), with publisher=%v: settled %q, expected %q", d.UUID, iv.b, po, called, sp.WithPub, got, e.settle)
		}
		cs := callFor[d.UUID]
		if e.publish {
			// in order and unmodified, in one call or several; after a failed call the rest may be withheld
			var got []string
			failed := false
			for _, c := range cs {
				for _, m := range c.Msgs {
					got = append(got, m.UUID)
				}
				failed = failed || c.Outcome != hx.PubOK
			}
			var want []string
			for i := 0; i < e.nout; i++ {
				want = append(want, fmt.Sprintf("%s/out%d", d.UUID, i))
			}
			switch {
			case len(cs) == 0:
				vs.Fail("publish-calls", "message %s behaviour %q: no Publish call, expected its %d outputs", d.UUID, iv.b, e.nout)
			case len(got) > len(want) || fmt.Sprint(got) != fmt.Sprint(want[:len(got)]):
				vs.Fail("publish-calls", "message %s behaviour %q: published %v, the handler returned %v (order or identity changed)", d.UUID, iv.b, got, want)
			case len(got) < len(want) && !failed:
				vs.Fail("publish-calls", "message %s behaviour %q: only %v of %v were published although no Publish call failed", d.UUID, iv.b, got, want)
			}
			if p := probes[d.UUID]; p != "unsettled" && iv.b != hx.BAckOK && iv.b != hx.BNackOK {
				vs.Fail("ack-after-publish", "message %s was already %s while its outputs were being published", d.UUID, p)
			}
		} else if len(cs) != 0 {
			vs.Fail("publish-calls", "message %s behaviour %q: outputs were published although they must not be (%d calls)", d.UUID, iv.b, len(cs))
		}
	}
	if sp.MW > 0 && mwTrace != sp.MW*len(inv) {
		vs.Fail("middleware", "recording middlewares ran %d times for %d invocations", mwTrace, len(inv))
	}
	vs.Note("%s", summary)
	_ = runDone // shutdown is the subject of C06/C10: the execution ends here, the engine tears the router down
}

func init() {
	add := func(tier reg.Tier, w int, sp spec, ct int) {
		sc := scenario(sp)
		reg.AddW("C02", sc.Name, tier, w, func(t reg.Tier) *explore.Scenario {
			x := sp
			if t == reg.Thorough {
				x.C = ct
			}
			return scenario(x)
		})
	}
	for _, withPub := range []bool{true, false} {
		for _, mw := range []int{0, 2} {
			add(reg.Quick, 5, spec{WithPub: withPub, MW: mw, N: 1, C: 1}, 2)
		}
		add(reg.Quick, 20, spec{WithPub: withPub, MW: 1, N: 2, C: 0}, 1)
		if !withPub {
			add(reg.Quick, 5, spec{NilPub: true, MW: 0, N: 1, C: 1}, 2)
			add(reg.Quick, 10, spec{NilPub: true, MW: 1, N: 2, C: 0}, 1)
		}
		cq := 1
		if withPub {
			cq = 0 // 5 behaviours x 4 publisher outcomes per message: c = 1 does not fit the quick budget
		}
		add(reg.Quick, 30, spec{WithPub: withPub, MW: 0, N: 2, InFlight: true, Subset: true, C: cq}, cq+1)
		add(reg.Thorough, 60, spec{WithPub: withPub, MW: 0, N: 3, InFlight: true, Subset: true, C: 1}, 1)
		if withPub {
			add(reg.Quick, 20, spec{WithPub: true, MW: 0, N: 1, Subset: true, Stop: true, C: 0}, 1)
			add(reg.Quick, 5, spec{WithPub: true, MW: 1, N: 1, EmptyTopic: true, C: 0}, 1)
		}
	}
}
