// Package c09: middlewares nest in registration order per handler; decorators apply in order.
package c09

import (
	"context"
	"fmt"
	"strings"

	"github.com/ThreeDotsLabs/watermill/message"

	"verif/explore"
	"verif/harness/hx"
	"verif/harness/reg"
	"verif/vs"
)

const (
	opMR = iota // router-level middleware
	opMA        // middleware on handler A
	opMB
	opHA // AddHandler A
	opHB
)

var opNames = []string{"MR", "MA", "MB", "HA", "HB"}

type mwReg struct {
	id    int
	level string // "R", "A", "B"
}

func expected(regs []mwReg, h string) string { return expectedX(regs, h, true) }

// withLate: include router-level middlewares that were registered on the running router ("RL")
func expectedX(regs []mwReg, h string, withLate bool) string {
	var in []string
	for _, m := range regs {
		if m.level == "R" || m.level == h || (m.level == "RL" && withLate) {
			in = append(in, fmt.Sprintf("%d", m.id))
		}
	}
	s := ""
	for _, k := range in {
		s += k + "("
	}
	s += "H" + h
	for i := len(in) - 1; i >= 0; i-- {
		s += ")" + in[i]
	}
	return s
}

// program of length L chosen step by step; lateB: handler B (and its middlewares) is added after Run
// and started with RunHandlers.
func mwScenario(L int, lateB bool, c int) *explore.Scenario {
	name := fmt.Sprintf("middleware/len%d", L)
	if lateB {
		name += "/lateB"
	}
	if c >= 0 {
		name += fmt.Sprintf("/c%d", c)
	}
	return &explore.Scenario{Name: name, C: c, DataOnly: c < 0, Body: func() {
		r, err := message.NewRouter(message.RouterConfig{}, nil)
		if err != nil {
			vs.Fail("setup", "%v", err)
			return
		}
		traces := map[string]*string{}
		mk := func(id int) message.HandlerMiddleware {
			return func(next message.HandlerFunc) message.HandlerFunc {
				return func(m *message.Message) ([]*message.Message, error) {
					t := traces[m.UUID]
					*t += fmt.Sprintf("%d(", id)
					out, err := next(m)
					*t += fmt.Sprintf(")%d", id)
					return out, err
				}
			}
		}
		subs := map[string]*hx.ScriptSub{}
		hs := map[string]*message.Handler{}
		// handler names: the router accepts any distinct strings, the empty one included (router-level
		// middlewares are stored with an empty handler name)
		naming := vs.Choose(len(namings), 0, "handler names")
		addHandler := func(h string) {
			sub := hx.NewScriptSub(h, map[string][]*message.Message{"in" + h: {hx.Msg("msg" + h)}})
			subs[h] = sub
			tr := ""
			traces["msg"+h] = &tr
			hs[h] = r.AddHandler(namings[naming][h], "in"+h, sub, "out", hx.NewScriptPub("p"+h), func(m *message.Message) ([]*message.Message, error) {
				*traces[m.UUID] += "H" + h
				return nil, nil
			})
		}
		var regs []mwReg
		prog := ""
		nextID := 0
		step := func(allowHB bool) {
			// legal operations in the current state
			var legal []int
			legal = append(legal, opMR)
			if hs["A"] != nil {
				legal = append(legal, opMA)
			} else {
				legal = append(legal, opHA)
			}
			if hs["B"] != nil {
				legal = append(legal, opMB)
			} else if allowHB {
				legal = append(legal, opHB)
			}
			op := legal[vs.Choose(len(legal), 0, "registration")]
			prog += opNames[op] + " "
			switch op {
			case opMR:
				r.AddMiddleware(mk(nextID))
				regs = append(regs, mwReg{nextID, "R"})
				nextID++
			case opMA:
				hs["A"].AddMiddleware(mk(nextID))
				regs = append(regs, mwReg{nextID, "A"})
				nextID++
			case opMB:
				hs["B"].AddMiddleware(mk(nextID))
				regs = append(regs, mwReg{nextID, "B"})
				nextID++
			case opHA:
				addHandler("A")
			case opHB:
				addHandler("B")
			}
		}
		for i := 0; i < L; i++ {
			step(!lateB)
		}
		if hs["A"] == nil {
			addHandler("A")
			prog += "HA "
		}
		ctx := context.Background()
		go func() {
			if err := r.Run(ctx); err != nil {
				vs.Fail("run-result", "%v", err)
			}
		}()
		<-r.Running()
		if lateB {
			prog += "RUN "
			vs.Quiesce() // handler A is up and has handled its message
			// a router-level middleware may be registered on the running router: handlers started afterwards run it
			if vs.Choose(2, 0, "router-level middleware registered after Run") == 1 {
				r.AddMiddleware(mk(nextID))
				regs = append(regs, mwReg{nextID, "RL"})
				nextID++
				prog += "MR "
			}
			prog += "HB "
			addHandler("B")
			n := vs.Choose(3, 0, "late middlewares")
			for i := 0; i < n; i++ {
				hs["B"].AddMiddleware(mk(nextID))
				regs = append(regs, mwReg{nextID, "B"})
				nextID++
				prog += "MB "
			}
			if err := r.RunHandlers(ctx); err != nil {
				vs.Fail("runhandlers-error", "%v", err)
			}
		}
		vs.Quiesce()
		for h := range hs {
			got := *traces["msg"+h]
			// (handler A was started by Run: whether a router-level middleware registered afterwards reaches it is not
			// fixed by the statement; handler B was started after every registration)
			if want := expected(regs, h); got != want && !(h == "A" && got == expectedX(regs, h, false)) {
				vs.Fail("nesting", "program [%s] with handler names %q: handler %s ran %q, expected %q", strings.TrimSpace(prog), namings[naming], h, got, want)
			}
		}
		vs.Note("%s names=%d", prog, naming)
	}}
}

// long registration sequences (the statement's "up to length 20"): three fixed interleavings of router-level and
// handler-level registrations of length 18-21 over two handlers, one schedule each - far beyond the exhaustive bound,
// as a guard against anything that depends on how many middlewares there are.
func longScenario() *explore.Scenario {
	return &explore.Scenario{Name: "middleware/long", C: -1, DataOnly: true, Body: func() {
		r, err := message.NewRouter(message.RouterConfig{}, nil)
		if err != nil {
			vs.Fail("setup", "%v", err)
			return
		}
		traces := map[string]*string{}
		mk := func(id int) message.HandlerMiddleware {
			return func(next message.HandlerFunc) message.HandlerFunc {
				return func(m *message.Message) ([]*message.Message, error) {
					t := traces[m.UUID]
					*t += fmt.Sprintf("%d(", id)
					out, err := next(m)
					*t += fmt.Sprintf(")%d", id)
					return out, err
				}
			}
		}
		hs := map[string]*message.Handler{}
		for _, h := range []string{"A", "B"} {
			h := h
			sub := hx.NewScriptSub(h, map[string][]*message.Message{"in" + h: {hx.Msg("msg" + h)}})
			tr := ""
			traces["msg"+h] = &tr
			hs[h] = r.AddHandler("h"+h, "in"+h, sub, "out", hx.NewScriptPub("p"+h), func(m *message.Message) ([]*message.Message, error) {
				*traces[m.UUID] += "H" + h
				return nil, nil
			})
		}
		pattern := []string{"RABRBA", "ABR", "RRABBAB"}[vs.Choose(3, 0, "registration pattern")]
		length := 18 + vs.Choose(4, 0, "length")
		var regs []mwReg
		prog := ""
		for i := 0; i < length; i++ {
			lv := string(pattern[i%len(pattern)])
			if lv == "R" {
				r.AddMiddleware(mk(i))
			} else {
				hs[lv].AddMiddleware(mk(i))
			}
			regs = append(regs, mwReg{i, lv})
			prog += "M" + lv + " "
		}
		go func() {
			if err := r.Run(context.Background()); err != nil {
				vs.Fail("run-result", "%v", err)
			}
		}()
		<-r.Running()
		vs.Quiesce()
		for h := range hs {
			if got, want := *traces["msg"+h], expected(regs, h); got != want {
				vs.Fail("nesting", "program [%s]: handler %s ran %q, expected %q", strings.TrimSpace(prog), h, got, want)
			}
		}
		vs.Note("%s", prog)
	}}
}

var namings = []map[string]string{
	{"A": "hA", "B": "hB"},
	{"A": "", "B": "hB"},
	{"A": "hA", "B": ""},
	{"A": "h", "B": "hh"},
}

// decorator lists: np publisher decorators and ns subscriber decorators, added in 1..k batches.
func decoScenario(np, ns int, c int) *explore.Scenario {
	name := fmt.Sprintf("decorators/pub%d-sub%d", np, ns)
	if c >= 0 {
		name += fmt.Sprintf("/c%d", c)
	}
	return &explore.Scenario{Name: name, C: c, DataOnly: c < 0, Body: func() {
		r, err := message.NewRouter(message.RouterConfig{}, nil)
		if err != nil {
			vs.Fail("setup", "%v", err)
			return
		}
		tag := func(kind string, i int) func(*message.Message) {
			return func(m *message.Message) {
				m.Metadata.Set("trace", m.Metadata.Get("trace")+fmt.Sprintf("%s%d,", kind, i))
			}
		}
		// the list is added either one by one or in batches (split point chosen)
		var pd []message.PublisherDecorator
		for i := 0; i < np; i++ {
			pd = append(pd, message.MessageTransformPublisherDecorator(tag("p", i)))
		}
		var sd []message.SubscriberDecorator
		for i := 0; i < ns; i++ {
			sd = append(sd, message.MessageTransformSubscriberDecorator(tag("s", i)))
		}
		// the same decorator value may be listed twice (it is applied twice, each time around what is inside it)
		pname := func(i int) int { return i }
		sname := pname
		if (np >= 2 || ns >= 2) && vs.Choose(2, 0, "first decorator value listed again at the end") == 1 {
			if np >= 2 {
				pd[np-1] = pd[0]
				pname = func(i int) int {
					if i == np-1 {
						return 0
					}
					return i
				}
			}
			if ns >= 2 {
				sd[ns-1] = sd[0]
				sname = func(i int) int {
					if i == ns-1 {
						return 0
					}
					return i
				}
			}
		}
		if np > 0 {
			k := vs.Choose(np+1, 0, "publisher batch split")
			r.AddPublisherDecorators(pd[:k]...)
			r.AddPublisherDecorators(pd[k:]...)
		}
		if ns > 0 {
			k := vs.Choose(ns+1, 0, "subscriber batch split")
			r.AddSubscriberDecorators(sd[:k]...)
			r.AddSubscriberDecorators(sd[k:]...)
		}
		// three handlers (the third is added to the running router): every one of them gets the same lists
		type hrec struct {
			sub     *hx.ScriptSub
			pub     *hx.ScriptPub
			inTrace string
		}
		var hs []*hrec
		addHandler := func() {
			i := len(hs)
			h := &hrec{sub: hx.NewScriptSub(fmt.Sprintf("s%d", i), map[string][]*message.Message{"in": {hx.Msg(fmt.Sprintf("m%d", i))}}), pub: hx.NewScriptPub(fmt.Sprintf("p%d", i))}
			hs = append(hs, h)
			r.AddHandler(fmt.Sprintf("h%d", i), "in", h.sub, "out", h.pub, func(m *message.Message) ([]*message.Message, error) {
				h.inTrace = m.Metadata.Get("trace")
				return hx.Outputs(m, 1), nil
			})
		}
		addHandler()
		if c < 0 { // under preemptions two handlers (one of them late) are what fits the budget
			addHandler()
		}
		go func() {
			if err := r.Run(context.Background()); err != nil {
				vs.Fail("run-result", "%v", err)
			}
		}()
		<-r.Running()
		addHandler()
		if err := r.RunHandlers(context.Background()); err != nil {
			vs.Fail("runhandlers-error", "%v", err)
		}
		vs.Quiesce()
		wantIn, wantOut := "", ""
		for i := 0; i < ns; i++ {
			wantIn += fmt.Sprintf("s%d,", sname(i))
		}
		for i := 0; i < np; i++ {
			wantOut += fmt.Sprintf("p%d,", pname(i))
		}
		inTrace := ""
		for i, h := range hs {
			inTrace = h.inTrace
			if h.inTrace != wantIn {
				vs.Fail("subscriber-decorators", "handler h%d: incoming message passed subscriber decorators %q, expected %q", i, h.inTrace, wantIn)
			}
			calls := h.pub.Snapshot()
			if len(calls) != 1 || len(calls[0].Msgs) != 1 {
				vs.Fail("publisher-decorators", "handler h%d: expected one published message, got %d calls", i, len(calls))
			} else if got := calls[0].Msgs[0].Metadata.Get("trace"); got != wantOut {
				vs.Fail("publisher-decorators", "handler h%d: outgoing message passed publisher decorators %q, expected %q", i, got, wantOut)
			}
		}
		vs.Note("in=%s out=%s", inTrace, wantOut)
	}}
}

func init() {
	add := func(tier reg.Tier, w int, mk func(t reg.Tier) *explore.Scenario) {
		reg.AddW("C09", mk(reg.Quick).Name, tier, w, mk)
	}
	for L := 0; L <= 6; L++ {
		L := L
		tier := reg.Quick
		if L == 6 {
			tier = reg.Thorough
		}
		add(tier, L*L+1, func(t reg.Tier) *explore.Scenario { return mwScenario(L, false, -1) })
		if L <= 4 {
			add(tier, L*L+1, func(t reg.Tier) *explore.Scenario { return mwScenario(L, true, -1) })
		}
	}
	add(reg.Thorough, 50, func(t reg.Tier) *explore.Scenario { return mwScenario(5, true, -1) })
	add(reg.Quick, 20, func(t reg.Tier) *explore.Scenario { return mwScenario(2, false, 0) })
	add(reg.Quick, 2, func(t reg.Tier) *explore.Scenario { return longScenario() })
	add(reg.Thorough, 60, func(t reg.Tier) *explore.Scenario { return mwScenario(3, true, 0) })
	for np := 0; np <= 5; np++ {
		for ns := 0; ns <= 5; ns++ {
			np, ns := np, ns
			tier := reg.Quick
			if np > 3 || ns > 3 {
				tier = reg.Thorough
			}
			add(tier, 1, func(t reg.Tier) *explore.Scenario { return decoScenario(np, ns, -1) })
		}
	}
	add(reg.Quick, 10, func(t reg.Tier) *explore.Scenario {
		if t == reg.Thorough {
			return decoScenario(2, 2, 1)
		}
		return decoScenario(2, 2, 0)
	})
}
