// Package c11: persistent GoChannel replays the whole topic to every subscription exactly once.
package c11

import (
	"context"
	"fmt"

	"github.com/ThreeDotsLabs/watermill/message"

	"verif/explore"
	"verif/harness/hx"
	"verif/harness/reg"
	"verif/vs"
)

// scenario: P publishers x M messages and S subscriptions, all started concurrently on topic "t";
// one decoy message on topic "d". Consumers always Ack. Oracle at quiescence, before Close.
func scenario(cfg hx.GCfg, P, M, S, c int, preSub bool) *explore.Scenario {
	return scenarioB(cfg, P, M, S, c, preSub, false)
}

// reuse: what a publisher may do with its own message value once Publish has returned (recycle it for the
// next message): the Pub/Sub's log and deliveries must not change retroactively.
func reuse(m *message.Message) {
	m.UUID = "recycled-by-publisher"
	m.Payload = []byte("recycled")
	m.Metadata.Set("recycled", "yes")
}

// batch: each publisher hands its M messages to a single Publish call.
func scenarioB(cfg hx.GCfg, P, M, S, c int, preSub bool, batch bool) *explore.Scenario {
	name := fmt.Sprintf("%s/P%dxM%d/S%d", cfg, P, M, S)
	if preSub {
		name += "/presub"
	}
	if batch {
		name += "/batch"
	}
	return &explore.Scenario{
		Name: name, C: c,
		Body: func() {
			g := cfg.New()
			ctx := context.Background()
			published := make([][]string, P)
			recv := make([][]string, S)
			subOK := make([]bool, S)
			if err := g.Publish("d", hx.Msg("decoy")); err != nil {
				vs.Fail("publish-error", "decoy publish failed: %v", err)
			}
			// a Publish call without messages on a topic never used before (the deduplicating publisher decorator makes such
			// calls when it has dropped a whole batch): nothing is published, and nothing else is affected
			if err := g.Publish("never-used"); err != nil {
				vs.Fail("publish-error", "Publish without messages failed: %v", err)
			}
			consume := func(s int) {
				ch, err := g.Subscribe(ctx, "t")
				if err != nil {
					return
				}
				subOK[s] = true
				for m := range ch {
					recv[s] = append(recv[s], m.UUID)
					m.Ack()
				}
			}
			first := 0
			if preSub {
				// one subscription exists before anything is published (still must see everything)
				first = 1
				ch, err := g.Subscribe(ctx, "t")
				if err != nil {
					vs.Fail("subscribe-error", "%v", err)
					return
				}
				subOK[0] = true
				go func() {
					for m := range ch {
						recv[0] = append(recv[0], m.UUID)
						m.Ack()
					}
				}()
			}
			for p := 0; p < P; p++ {
				p := p
				go func() {
					if batch {
						var ms []*message.Message
						var us []string
						for i := 0; i < M; i++ {
							m := hx.Msg(fmt.Sprintf("p%dm%d", p, i))
							ms = append(ms, m)
							us = append(us, m.UUID)
						}
						err := g.Publish("t", ms...)
						for _, m := range ms {
							reuse(m)
						}
						if err == nil {
							published[p] = append(published[p], us...)
						} else {
							vs.Fail("publish-error", "Publish on open Pub/Sub failed: %v", err)
						}
						return
					}
					for i := 0; i < M; i++ {
						m := hx.Msg(fmt.Sprintf("p%dm%d", p, i))
						u := m.UUID
						err := g.Publish("t", m)
						reuse(m)
						if err == nil {
							published[p] = append(published[p], u)
						} else {
							vs.Fail("publish-error", "Publish on open Pub/Sub failed: %v", err)
						}
					}
				}()
			}
			for s := first; s < S; s++ {
				s := s
				go consume(s)
			}
			vs.Quiesce()
			var all []string
			for _, p := range published {
				all = append(all, p...)
			}
			if len(all) != P*M {
				vs.Fail("publish-hang", "only %d of %d Publish calls returned at quiescence", len(all), P*M)
			}
			for s := 0; s < S; s++ {
				if !subOK[s] {
					vs.Fail("subscribe-hang", "Subscribe of subscription %d did not return", s)
					continue
				}
				if !hx.MultisetEq(recv[s], all) {
					vs.Fail("exactly-once", "subscription %d received [%s], published [%s] (cfg %s)", s, hx.Join(hx.SortedCopy(recv[s])), hx.Join(hx.SortedCopy(all)), cfg)
				}
			}
			vs.Note("recv0=%v", hx.SortedCopy(recv[0]))
			if err := g.Close(); err != nil {
				vs.Fail("close-error", "%v", err)
			}
		},
	}
}

// churnScenario: subscriptions A, B, C exist; A is cancelled while a message is published; a late
// subscription D joins at the end: B, C and D must each have every message exactly once.
func churnScenario(cfg hx.GCfg, c int) *explore.Scenario {
	return &explore.Scenario{Name: fmt.Sprintf("%s/neighbour-leaves", cfg), C: c, Body: func() {
		g := cfg.New()
		ctxA, cancelA := context.WithCancel(context.Background())
		recv := make([][]string, 4)
		sub := func(s int, ctx context.Context) bool {
			ch, err := g.Subscribe(ctx, "t")
			if err != nil {
				vs.Fail("subscribe-error", "%v", err)
				return false
			}
			go func() {
				for m := range ch {
					recv[s] = append(recv[s], m.UUID)
					m.Ack()
				}
			}()
			return true
		}
		for s := 0; s < 3; s++ {
			ctx := context.Background()
			if s == 0 {
				ctx = ctxA
			}
			if !sub(s, ctx) {
				return
			}
		}
		go func() {
			if err := g.Publish("t", hx.Msg("m1")); err != nil {
				vs.Fail("publish-error", "%v", err)
			}
		}()
		go cancelA()
		vs.Quiesce()
		sub(3, context.Background())
		vs.Quiesce()
		for s := 1; s < 4; s++ {
			if !hx.MultisetEq(recv[s], []string{"m1"}) {
				vs.Fail("exactly-once", "subscription %d received %v, published [m1] (a neighbouring subscription was cancelled meanwhile, cfg %s)", s, recv[s], cfg)
			}
		}
		vs.Note("%v", recv)
		cancelA()
		g.Close()
	}}
}

func init() {
	for _, cfg := range hx.AllGCfg(0, 1) {
		if !cfg.Persistent {
			continue
		}
		cfg := cfg
		sc := churnScenario(cfg, 0)
		reg.AddW("C11", sc.Name, reg.Quick, 30, func(t reg.Tier) *explore.Scenario {
			if t == reg.Thorough {
				return churnScenario(cfg, 1)
			}
			return churnScenario(cfg, 0)
		})
	}
	for _, cfg := range hx.AllGCfg(0, 1) {
		if !cfg.Persistent {
			continue
		}
		cfg := cfg
		add := func(tier reg.Tier, w, P, M, S, cq, ct int, pre bool) {
			sc := scenario(cfg, P, M, S, cq, pre)
			reg.AddW("C11", sc.Name, tier, w, func(t reg.Tier) *explore.Scenario {
				if t == reg.Thorough {
					return scenario(cfg, P, M, S, ct, pre)
				}
				return scenario(cfg, P, M, S, cq, pre)
			})
		}
		add(reg.Quick, 1, 1, 1, 1, 3, -1, false)
		add(reg.Quick, 3, 1, 2, 1, 2, 4, false)
		add(reg.Quick, 5, 1, 1, 2, 2, 3, false)
		add(reg.Quick, 5, 2, 1, 1, 2, 3, false)
		add(reg.Quick, 5, 1, 1, 2, 2, 3, true)
		addB := func(tier reg.Tier, w, P, M, S, cq, ct int, pre bool) {
			sc := scenarioB(cfg, P, M, S, cq, pre, true)
			reg.AddW("C11", sc.Name, tier, w, func(t reg.Tier) *explore.Scenario {
				if t == reg.Thorough {
					return scenarioB(cfg, P, M, S, ct, pre, true)
				}
				return scenarioB(cfg, P, M, S, cq, pre, true)
			})
		}
		addB(reg.Quick, 5, 1, 2, 1, 2, 4, false)
		addB(reg.Quick, 8, 1, 2, 2, 1, 2, true)
		addB(reg.Thorough, 30, 2, 2, 2, 1, 2, true)
		add(reg.Thorough, 20, 2, 1, 2, 2, 2, false)
		add(reg.Thorough, 20, 1, 2, 2, 2, 2, true)
		add(reg.Thorough, 30, 2, 2, 1, 2, 2, false)
	}
}
