// Package c10: Router lifecycle — Running, RunHandlers, Started/Stop/Stopped, self-close, second Run.
package c10

import (
	"context"
	"fmt"
	"time"

	"github.com/ThreeDotsLabs/watermill/message"

	"verif/explore"
	"verif/harness/hx"
	"verif/harness/reg"
	"verif/vs"
)

type env struct {
	r      *message.Router
	subs   map[string]*hx.ScriptSub
	pubs   map[string]*hx.ScriptPub
	handle map[string]int
	hs     map[string]*message.Handler
}

func newEnv() *env {
	r, err := message.NewRouter(message.RouterConfig{}, nil)
	if err != nil {
		panic(err)
	}
	return &env{r: r, subs: map[string]*hx.ScriptSub{}, pubs: map[string]*hx.ScriptPub{}, handle: map[string]int{}, hs: map[string]*message.Handler{}}
}

// addHandler registers handler `name` on its own gated ScriptSub emitting n messages and its own publisher.
func (e *env) addHandler(name string, n int) {
	script := map[string][]*message.Message{}
	for i := 0; i < n; i++ {
		script["in-"+name] = append(script["in-"+name], hx.Msg(fmt.Sprintf("%s-m%d", name, i)))
	}
	sub := hx.NewScriptSub(name, script)
	sub.Gate = make(chan struct{})
	pub := hx.NewScriptPub(name)
	e.subs[name], e.pubs[name] = sub, pub
	e.hs[name] = e.r.AddHandler(name, "in-"+name, sub, "out-"+name, pub, func(m *message.Message) ([]*message.Message, error) {
		e.handle[name]++
		return hx.Outputs(m, 1), nil
	})
}

func (e *env) run(ctx context.Context, done *bool) {
	go func() {
		if err := e.r.Run(ctx); err != nil {
			vs.Fail("run-result", "Run returned %v", err)
		}
		*done = true
	}()
}

// running: Running() is closed only after every handler holds its subscription; a message published
// right after Running() is delivered.
func runningScenario(H, c int) *explore.Scenario {
	return &explore.Scenario{Name: fmt.Sprintf("running/H%d", H), C: c, Body: func() {
		e := newEnv()
		for i := 0; i < H; i++ {
			e.addHandler(fmt.Sprintf("h%d", i), 1)
		}
		runDone := false
		e.run(context.Background(), &runDone)
		<-e.r.Running()
		for n, s := range e.subs {
			if s.Subscribed["in-"+n] != 1 {
				vs.Fail("running-after-subscribe", "Running() is closed but handler %s has %d subscriptions on its topic", n, s.Subscribed["in-"+n])
			}
		}
		if !e.r.IsRunning() {
			vs.Fail("is-running", "IsRunning() false after Running() closed")
		}
		for _, s := range e.subs {
			s.Open()
		}
		vs.Quiesce()
		for n := range e.subs {
			if e.handle[n] != 1 {
				vs.Fail("delivered-after-running", "message published right after Running() was handled %d times by %s", e.handle[n], n)
			}
			if d := e.subs[n].Snapshot(); len(d) != 1 || !d[0].Acked() {
				vs.Fail("delivered-after-running", "message of %s not acked", n)
			}
		}
		vs.Note("ok")
	}}
}

// runHandlers: handlers added after Run are started exactly once, however often RunHandlers is called.
func runHandlersScenario(concurrentCalls, c int) *explore.Scenario {
	return &explore.Scenario{Name: fmt.Sprintf("runhandlers/calls%d", concurrentCalls), C: c, Body: func() {
		e := newEnv()
		e.addHandler("a", 1)
		runDone := false
		ctx := context.Background()
		e.run(ctx, &runDone)
		<-e.r.Running()
		e.addHandler("b", 1)
		var wg vs.WaitGroup
		for i := 0; i < concurrentCalls; i++ {
			wg.Add(1)
			go func() {
				defer wg.Done()
				if err := e.r.RunHandlers(ctx); err != nil {
					vs.Fail("runhandlers-error", "%v", err)
				}
			}()
		}
		wg.Wait()
		if err := e.r.RunHandlers(ctx); err != nil {
			vs.Fail("runhandlers-error", "%v", err)
		}
		for n, s := range e.subs {
			if s.SubscribeCalls != 1 {
				vs.Fail("started-once", "handler %s was subscribed %d times after %d RunHandlers calls", n, s.SubscribeCalls, concurrentCalls+1)
			}
			s.Open()
		}
		vs.Quiesce()
		for n := range e.subs {
			if e.handle[n] != 1 {
				vs.Fail("started-once", "handler %s handled its message %d times", n, e.handle[n])
			}
		}
		vs.Note("ok")
	}}
}

// stop: once Started() is closed Stop()/Stopped() are usable; Stop ends only that handler.
func stopScenario(c int, post bool) *explore.Scenario {
	name := "stop"
	if post {
		name += "/postrelease"
	}
	return &explore.Scenario{Name: name, C: c, Opts: vs.Options{PostRelease: post}, Body: func() {
		e := newEnv()
		e.addHandler("a", 0)
		e.addHandler("b", 1)
		ha := e.hs["a"]
		stopped := false
		var wg vs.WaitGroup
		wg.Add(1)
		go func() {
			defer wg.Done()
			<-ha.Started()
			ha.Stop() // a nil stop function panics: reported as an uncaught panic
			st := ha.Stopped()
			if st == nil {
				vs.Fail("stopped-usable", "Stopped() returned a nil channel after Started() was closed")
				return
			}
			<-st
			stopped = true
			// Stopped() is closed: the handler has ended for the router too, so the name is free again at once (the
			// restart flow: Stop, wait for Stopped, add a handler under the same name, RunHandlers)
			defer func() {
				if r := recover(); r != nil {
					vs.Fail("stopped-usable", "Stopped() of handler a is closed, but adding a handler named a again panicked: %v", r)
				}
			}()
			e.addHandler("a", 1)
		}()
		runDone := false
		e.run(context.Background(), &runDone)
		<-e.r.Running()
		wg.Wait() // hang = Stopped() never closes
		if !stopped {
			return
		}
		// handler b does not share a's publisher: it must keep processing
		e.subs["b"].Open()
		vs.Quiesce()
		if e.handle["b"] != 1 {
			vs.Fail("stop-only-that-handler", "after stopping handler a, handler b handled %d of 1 messages", e.handle["b"])
		}
		if runDone {
			vs.Fail("stop-only-that-handler", "Run returned although handler b is still running")
		}
		if e.pubs["b"].CloseCalls != 0 {
			vs.Fail("stop-only-that-handler", "stopping handler a closed handler b's publisher")
		}
		if err := e.r.RunHandlers(context.Background()); err != nil {
			vs.Fail("runhandlers-error", "%v", err)
		}
		<-e.hs["a"].Started()
		e.subs["a"].Open()
		vs.Quiesce()
		if e.handle["a"] != 1 {
			vs.Fail("started-once", "handler a, added again after it had stopped, handled %d of 1 messages", e.handle["a"])
		}
		if e.subs["a"].SubscribeCalls != 1 {
			vs.Fail("started-once", "handler a, added again after it had stopped, subscribed %d times", e.subs["a"].SubscribeCalls)
		}
		vs.Note("ok")
	}}
}

// selfClose: when the last handler ends, or the Run context is cancelled, Run returns nil.
func selfCloseScenario(how string, c int) *explore.Scenario {
	return &explore.Scenario{Name: "selfclose/" + how, C: c, Body: func() {
		e := newEnv()
		e.addHandler("a", 1)
		// a second AddHandler under the same name is refused with the documented panic; a caller that recovers from it
		// has a router with one handler, as before
		if vs.Choose(2, 0, "a duplicate-name AddHandler was refused before") == 1 {
			func() {
				defer func() {
					if recover() == nil {
						vs.Fail("setup", "AddHandler with a duplicate name did not panic")
					}
				}()
				e.r.AddNoPublisherHandler("a", "in-a2", hx.NewScriptSub("a2", nil), func(*message.Message) error { return nil })
			}()
		}
		runDone := false
		ctx, cancel := context.WithCancel(context.Background())
		e.run(ctx, &runDone)
		<-e.r.Running()
		switch how {
		case "stop-last-handler":
			<-e.hs["a"].Started()
			e.hs["a"].Stop()
		case "cancel-run-context":
			cancel()
		case "subscriber-closes":
			e.subs["a"].Close()
		}
		vs.Quiesce()
		if !runDone {
			vs.Fail("self-close", "Run has not returned at quiescence after %s", how)
		}
		if !e.r.IsClosed() {
			vs.Fail("self-close", "router not closed after %s", how)
		}
		vs.Note("ok")
		cancel()
	}}
}

// subscribeFails: a handler whose subscriber refuses the subscription: Run reports it instead of declaring the
// router running with a handler that holds no subscription.
func subscribeFailsScenario(c int) *explore.Scenario {
	return &explore.Scenario{Name: "subscribe-fails", C: c, Body: func() {
		e := newEnv()
		e.addHandler("a", 1)
		e.addHandler("b", 1)
		bad := []string{"a", "b"}[vs.Choose(2, 0, "handler whose Subscribe fails")]
		e.subs[bad].Close() // a closed ScriptSub returns an error from Subscribe
		var runErr error
		returned := false
		go func() {
			runErr = e.r.Run(context.Background())
			returned = true
		}()
		vs.Quiesce()
		if vs.PeekClosed(e.r.Running()) {
			vs.Fail("running-after-subscribe", "Running() is closed although handler %s could not subscribe", bad)
		}
		if returned && runErr == nil {
			vs.Fail("running-after-subscribe", "Run returned nil although handler %s could not subscribe", bad)
		}
		if !returned {
			vs.Fail("running-after-subscribe", "handler %s could not subscribe: Run neither returned the error nor ... (still blocked at quiescence)", bad)
		}
		vs.Note("bad=%s err=%v", bad, runErr)
	}}
}

// secondRun: a second Run returns an error.
func secondRunScenario(c int) *explore.Scenario {
	return &explore.Scenario{Name: "second-run", C: c, Body: func() {
		e := newEnv()
		e.addHandler("a", 0)
		runDone := false
		e.run(context.Background(), &runDone)
		<-e.r.Running()
		if err := e.r.Run(context.Background()); err == nil {
			vs.Fail("second-run", "second Run returned nil")
		}
		if err := e.r.Close(); err != nil {
			vs.Fail("close-error", "%v", err)
		}
		vs.Quiesce()
		if !runDone {
			vs.Fail("self-close", "Run has not returned after Close")
		}
		if err := e.r.Run(context.Background()); err == nil {
			vs.Fail("second-run", "Run on a closed router returned nil")
		}
		vs.Note("ok")
	}}
}

// ---- lifecycle programs ---------------------------------------------------------------------------------------
//
// Every program of length L over {AddHandler, Run, wait Running, RunHandlers, wait Started(h), Stop(h)+wait
// Stopped(h), open h's subscriber, settle, cancel the Run context, Close, second Run} that the API permits
// (nothing is added or started once a shutdown was triggered) is run against the router; a small
// reference model of the documented lifecycle says what must be true when the program has settled.

type mh struct {
	name           string
	startRequested bool // added before Run, or RunHandlers called since it was added
	startedWaited  bool
	stopped        bool
	opened         bool
	mustHandle     bool // at a settled point it was running with its subscriber open
	maybeStarted   bool // added while Run was starting up: Run's own RunHandlers may or may not have seen it
}

func programScenario(L, maxH, c int, lazy bool) *explore.Scenario {
	name := fmt.Sprintf("program/len%d/H%d", L, maxH)
	if c >= 0 {
		name += fmt.Sprintf("/c%d", c)
	}
	if lazy {
		name += "/lazystart"
	}
	return &explore.Scenario{Name: name, C: c, DataOnly: c < 0, Opts: vs.Options{LazyStart: lazy}, Body: func() {
		e := newEnv()
		var hs []*mh
		runStarted, runningWaited, shutdown := false, false, false
		cause := "" // what triggered the shutdown
		runDone := false
		ctx, cancel := context.WithCancel(context.Background())
		defer cancel()
		prog := ""
		settle := func() {
			time.Sleep(time.Minute) // virtual: longer than the default CloseTimeout, so a Close that waits it out is over
			vs.Quiesce()
			for _, h := range hs {
				if runStarted && !shutdown && h.startRequested && h.opened && !h.stopped {
					h.mustHandle = true
				}
			}
		}
		allStopped := func() bool {
			for _, h := range hs {
				if !h.stopped {
					return false
				}
			}
			return len(hs) > 0
		}
		for step := 0; step < L; step++ {
			type op struct {
				name string
				do   func()
			}
			var ops []op
			if !shutdown && len(hs) < maxH {
				ops = append(ops, op{"Add", func() {
					h := &mh{name: fmt.Sprintf("h%d", len(hs)), maybeStarted: runStarted && !runningWaited}
					e.addHandler(h.name, 1)
					hs = append(hs, h)
				}})
			}
			if !runStarted {
				ops = append(ops, op{"Run", func() {
					runStarted = true
					for _, h := range hs {
						h.startRequested = true
					}
					e.run(ctx, &runDone)
				}})
			}
			if runStarted && !runningWaited && !shutdown {
				ops = append(ops, op{"WaitRunning", func() {
					<-e.r.Running()
					runningWaited = true
					for _, h := range hs {
						if h.startRequested && e.subs[h.name].Subscribed["in-"+h.name] != 1 {
							vs.Fail("running-after-subscribe", "program [%s]: Running() is closed but handler %s holds %d subscriptions", prog, h.name, e.subs[h.name].Subscribed["in-"+h.name])
						}
					}
				}})
			}
			if runningWaited && !shutdown {
				ops = append(ops, op{"RunHandlers", func() {
					if err := e.r.RunHandlers(ctx); err != nil {
						vs.Fail("runhandlers-error", "program [%s]: %v", prog, err)
					}
					for _, h := range hs {
						h.startRequested = true
					}
				}})
				ops = append(ops, op{"Close", func() {
					shutdown, cause = true, "Close"
					e.r.Close() // its result is the subject of C06 (with a handler that was added but never started it is a timeout error)
				}})
			}
			// a second Run is refused from the moment the first one has been called (while it is still starting up,
			// too); with late goroutine starts "the first one has been called" is only certain after Running()
			if runStarted && !shutdown && (runningWaited || !lazy) {
				ops = append(ops, op{"SecondRun", func() {
					if err := e.r.Run(context.Background()); err == nil {
						vs.Fail("second-run", "program [%s]: a second Run returned nil", prog)
					}
				}})
			}
			if runStarted && !shutdown {
				ops = append(ops, op{"CancelRunContext", func() { shutdown, cause = true, "the Run context was cancelled"; cancel() }})
			}
			for _, h := range hs {
				h := h
				if runStarted && h.startRequested && !h.startedWaited && !shutdown {
					ops = append(ops, op{"WaitStarted(" + h.name + ")", func() {
						<-e.hs[h.name].Started()
						h.startedWaited = true
					}})
				}
				if h.startedWaited && !h.stopped && !shutdown {
					ops = append(ops, op{"Stop(" + h.name + ")", func() {
						e.hs[h.name].Stop()
						st := e.hs[h.name].Stopped()
						if st == nil {
							vs.Fail("stopped-usable", "program [%s]: Stopped() of %s is nil after Started() was closed", prog, h.name)
							return
						}
						<-st
						h.stopped = true
						if allStopped() {
							shutdown, cause = true, "the last handler was stopped" // the router closes itself
						}
					}})
				}
				if !h.opened {
					ops = append(ops, op{"Open(" + h.name + ")", func() { h.opened = true; e.subs[h.name].Open() }})
				}
			}
			ops = append(ops, op{"Settle", settle})
			o := ops[vs.Choose(len(ops), 0, "lifecycle operation")]
			prog += o.name + " "
			o.do()
		}
		settle()
		// ---- the reference model's verdict
		// (handlers the router never started a run loop for)
		var unstarted []string
		for _, h := range hs {
			if e.subs[h.name].SubscribeCalls == 0 {
				unstarted = append(unstarted, h.name)
			}
		}
		why := cause
		if cause == "the Run context was cancelled" && (len(hs) == 0 || len(unstarted) > 0) {
			why = fmt.Sprintf("the Run context was cancelled while %d handlers existed of which %v had not been started", len(hs), unstarted)
		}
		if runStarted && runDone != shutdown {
			if shutdown {
				vs.Fail("self-close", "program [%s]: %s, but Run has not returned", prog, why)
			} else {
				vs.Fail("run-returns-only-after-shutdown", "program [%s]: Run returned although no handler ended, the context is live and Close was not called", prog)
			}
		}
		if runStarted && shutdown && !e.r.IsClosed() {
			vs.Fail("self-close", "program [%s]: %s, but the router is not closed", prog, why)
		}
		if runStarted && !shutdown && e.r.IsClosed() {
			vs.Fail("run-returns-only-after-shutdown", "program [%s]: router closed itself although nothing ended it", prog)
		}
		for _, h := range hs {
			sc := e.subs[h.name].SubscribeCalls
			switch {
			case h.maybeStarted && !h.startRequested:
				if sc > 1 {
					vs.Fail("started-once", "program [%s]: handler %s subscribed %d times", prog, h.name, sc)
				}
			case !runStarted || !h.startRequested:
				if sc != 0 {
					vs.Fail("started-once", "program [%s]: handler %s was never to be started but subscribed %d times", prog, h.name, sc)
				}
			case h.startedWaited || !shutdown:
				if sc != 1 {
					vs.Fail("started-once", "program [%s]: handler %s subscribed %d times, expected once", prog, h.name, sc)
				}
			default:
				if sc > 1 {
					vs.Fail("started-once", "program [%s]: handler %s subscribed %d times", prog, h.name, sc)
				}
			}
			n := e.handle[h.name]
			if h.mustHandle && n != 1 {
				vs.Fail("keeps-processing", "program [%s]: handler %s was running with a message waiting, but handled it %d times", prog, h.name, n)
			}
			if n > 1 {
				vs.Fail("started-once", "program [%s]: handler %s handled its only message %d times", prog, h.name, n)
			}
			if runStarted && !shutdown && !h.stopped && e.pubs[h.name].CloseCalls != 0 {
				vs.Fail("stop-only-that-handler", "program [%s]: publisher of the running handler %s was closed", prog, h.name)
			}
			if runStarted && shutdown && h.startedWaited {
				if st := e.hs[h.name].Stopped(); st == nil || !vs.PeekClosed(st) {
					vs.Fail("self-close", "program [%s]: router shut down but Stopped() of %s is not closed", prog, h.name)
				}
			}
		}
		vs.Note("%s", prog)
	}}
}

func init() {
	add := func(tier reg.Tier, w int, mk func(c int) *explore.Scenario, cq, ct int) {
		sc := mk(cq)
		reg.AddW("C10", sc.Name, tier, w, func(t reg.Tier) *explore.Scenario {
			if t == reg.Thorough {
				return mk(ct)
			}
			return mk(cq)
		})
	}
	add(reg.Quick, 5, func(c int) *explore.Scenario { return runningScenario(1, c) }, 2, 3)
	add(reg.Quick, 10, func(c int) *explore.Scenario { return runningScenario(2, c) }, 1, 2)
	add(reg.Thorough, 30, func(c int) *explore.Scenario { return runningScenario(3, c) }, 1, 1)
	add(reg.Quick, 10, func(c int) *explore.Scenario { return runHandlersScenario(1, c) }, 1, 2)
	add(reg.Quick, 20, func(c int) *explore.Scenario { return runHandlersScenario(2, c) }, 1, 2)
	add(reg.Quick, 10, func(c int) *explore.Scenario { return stopScenario(c, false) }, 1, 2)
	add(reg.Quick, 20, func(c int) *explore.Scenario { return stopScenario(c, true) }, 1, 2)
	for _, how := range []string{"stop-last-handler", "cancel-run-context", "subscriber-closes"} {
		how := how
		add(reg.Quick, 10, func(c int) *explore.Scenario { return selfCloseScenario(how, c) }, 1, 2)
	}
	add(reg.Quick, 5, func(c int) *explore.Scenario { return secondRunScenario(c) }, 1, 2)
	add(reg.Quick, 5, func(c int) *explore.Scenario { return subscribeFailsScenario(c) }, 1, 2)
	for L := 1; L <= 7; L++ {
		L := L
		tier := reg.Quick
		if L > 6 {
			tier = reg.Thorough
		}
		add(tier, L*L, func(c int) *explore.Scenario { return programScenario(L, 2, -1, false) }, -1, -1)
	}
	// the same programs under preemptions / with late goroutine starts
	add(reg.Quick, 20, func(c int) *explore.Scenario { return programScenario(3, 2, c, false) }, 1, 2)
	add(reg.Quick, 40, func(c int) *explore.Scenario { return programScenario(4, 2, c, false) }, 0, 1)
	add(reg.Quick, 40, func(c int) *explore.Scenario { return programScenario(4, 2, c, true) }, 0, 1)
	add(reg.Thorough, 80, func(c int) *explore.Scenario { return programScenario(5, 2, c, false) }, 1, 1)
}
