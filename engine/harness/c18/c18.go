// Package c18: request-reply — replies reach only their requester; listeners always finish.
package c18

import (
	"context"
	"errors"

	"fmt"
	pkgerrors "github.com/pkg/errors"
	"strings"
	"time"

	"github.com/ThreeDotsLabs/watermill/components/cqrs"
	"github.com/ThreeDotsLabs/watermill/components/requestreply"
	"github.com/ThreeDotsLabs/watermill/message"
	"github.com/ThreeDotsLabs/watermill/pubsub/gochannel"

	"verif/explore"
	"verif/harness/hx"
	"verif/harness/reg"
	"verif/vs"
)

type Cmd struct {
	ID string `json:"id"`
}

type Res struct {
	Val string `json:"val"`
}

var marshaler = requestreply.BackendPubsubJSONMarshaler[Res]{}

const emptyErrorText = "<an error with empty text>"

// wantErrOf: what reply i of the scripted sequence carries: none, "err<i>", or an error with empty text.
func wantErrOf(i int) string {
	switch i % 3 {
	case 1:
		return emptyErrorText
	case 2:
		return fmt.Sprintf("err%d", i)
	}
	return ""
}

// notification builds a reply notification for operation op.
func notification(op, val, errText string) *message.Message {
	p := requestreply.BackendOnCommandProcessedParams[Res]{HandlerResult: Res{Val: val}}
	if errText == emptyErrorText {
		p.HandleErr = errors.New("") // a failure whose text is empty is still a failure
	} else if errText != "" {
		p.HandleErr = errors.New(errText)
	}
	m, err := marshaler.MarshalReply(p)
	if err != nil {
		panic(err)
	}
	m.Metadata.Set(requestreply.OperationIDMetadataKey, op)
	return m
}

func leaked() []string {
	var out []string
	for _, a := range vs.Alive() {
		if strings.Contains(a.Site, "components/requestreply/") {
			out = append(out, fmt.Sprintf("g%s spawned at %s blocked in %s", a.ID, a.Site, a.Op))
		}
	}
	return out
}

// ---- family A: the listener -----------------------------------------------------------------------------

type listenSpec struct {
	Replies int    // notifications for our operation (others are interleaved)
	Caller  string // drain | one-then-cancel | never-read | cancel-first | ctx-cancel | timeout
	C       int
}

func (s listenSpec) name() string { return fmt.Sprintf("listen/replies%d/%s", s.Replies, s.Caller) }

func listenScenario(sp listenSpec) *explore.Scenario {
	return &explore.Scenario{Name: sp.name(), C: sp.C, Body: func() {
		var script []*message.Message
		script = append(script, notification("other", "x", ""))
		for i := 0; i < sp.Replies; i++ {
			script = append(script, notification("op1", fmt.Sprintf("v%d", i), wantErrOf(i)))
			script = append(script, notification("other", "y", "error of another request"))
			// another requester on the shared topic may use another result type: its replies do not even
			// decode into ours (a number where we have a string; a truncated document)
			foreign := notification("other", "z", "")
			foreign.Payload = [][]byte{[]byte(`{"val":5}`), []byte(`{"val":`)}[i%2]
			script = append(script, foreign)
		}
		sub := hx.NewScriptSub("notifications", map[string][]*message.Message{"reply": script})
		finished := 0
		cfg := requestreply.PubSubBackendConfig{
			Publisher:              hx.NewScriptPub("unused"),
			SubscriberConstructor:  func(requestreply.PubSubBackendSubscribeParams) (message.Subscriber, error) { return sub, nil },
			GenerateSubscribeTopic: func(requestreply.PubSubBackendSubscribeParams) (string, error) { return "reply", nil },
			GeneratePublishTopic:   func(requestreply.PubSubBackendPublishParams) (string, error) { return "reply", nil },
			OnListenForReplyFinished: func(ctx context.Context, p requestreply.PubSubBackendSubscribeParams) {
				finished++
			},
		}
		// the finish hook is optional: without it everything else is the same
		withHook := vs.Choose(2, 0, "OnListenForReplyFinished configured") == 0
		if !withHook {
			cfg.OnListenForReplyFinished = nil
		}
		if strings.HasPrefix(sp.Caller, "timeout") {
			d := 10 * time.Second
			cfg.ListenForReplyTimeout = &d
		} else if vs.Choose(2, 0, "a long ListenForReplyTimeout is configured") == 1 {
			// the caller ends the request long before the configured timeout: the timeout changes nothing
			d := 24 * time.Hour
			cfg.ListenForReplyTimeout = &d
		}
		backend, err := requestreply.NewPubSubBackend[Res](cfg, marshaler)
		if err != nil {
			vs.Fail("setup", "%v", err)
			return
		}
		ctx, cancel := context.WithCancel(context.Background())
		ch, err := backend.ListenForNotifications(ctx, requestreply.BackendListenForNotificationsParams{Command: &Cmd{ID: "c1"}, OperationID: "op1"})
		if err != nil {
			vs.Fail("listen-error", "%v", err)
			return
		}
		var got []requestreply.Reply[Res]
		check := func(r requestreply.Reply[Res]) {
			var te requestreply.ReplyTimeoutError
			if errors.As(r.Error, &te) {
				return // end-of-listening marker
			}
			got = append(got, r)
			i := len(got) - 1
			wantErr := wantErrOf(i)
			gotErr := ""
			if r.Error != nil {
				gotErr = r.Error.Error()
				if gotErr == "" {
					gotErr = emptyErrorText
				}
			}
			if r.HandlerResult.Val != fmt.Sprintf("v%d", i) || gotErr != wantErr {
				vs.Fail("own-replies-only", "reply %d for op1 carries result %q error %q, expected v%d / %q", i, r.HandlerResult.Val, gotErr, i, wantErr)
			}
		}
		switch sp.Caller {
		case "drain":
			for i := 0; i < sp.Replies; i++ {
				check(<-ch)
			}
			cancel()
			for r := range ch {
				check(r)
			}
		case "one-then-cancel":
			if sp.Replies > 0 {
				check(<-ch)
			}
			vs.Quiesce() // the caller is late: further replies pile up meanwhile
			cancel()
		case "never-read":
			vs.Quiesce()
			cancel()
		case "cancel-first":
			cancel()
		case "timeout":
			for r := range ch { // until the listener gives up by itself
				check(r)
			}
		case "timeout-never-read": // the caller neither reads nor cancels: only the backend timeout ends the request
			time.Sleep(time.Minute)
		case "timeout-read-one":
			if sp.Replies > 0 {
				check(<-ch)
			}
			time.Sleep(time.Minute)
		}
		vs.Quiesce()
		// the listener must have terminated
		// (no draining here: the listener has to finish whether or not the caller reads)
		closed := vs.PeekClosed(ch)
		if !closed {
			vs.Fail("listener-terminates", "caller %q (finish hook configured: %v): reply channel not closed at quiescence after the request was cancelled/timed out", sp.Caller, withHook)
		}
		if withHook && finished != 1 {
			vs.Fail("finished-hook-once", "caller %q: OnListenForReplyFinished ran %d times", sp.Caller, finished)
		}
		if l := leaked(); len(l) > 0 {
			vs.Fail("listener-terminates", "caller %q: listener goroutine still alive: %s", sp.Caller, strings.Join(l, "; "))
		}
		if sp.Caller == "drain" || sp.Caller == "timeout" {
			if len(got) != sp.Replies {
				vs.Fail("own-replies-only", "caller %q received %d replies for its operation, expected %d", sp.Caller, len(got), sp.Replies)
			}
		}
		vs.Note("got=%d closed=%v finished=%d", len(got), closed, finished)
		cancel()
		sub.Close()
	}}
}

// ---- family B: the handler side ----------------------------------------------------------------------------

type handlerSpec struct {
	AckErrors bool
	Outcome   string // ok | err | err-then-ok
	PubFault  bool   // the reply publish fails once
	C         int
}

func (s handlerSpec) name() string {
	return fmt.Sprintf("handler/ackerrors=%v/%s/pubfault=%v", s.AckErrors, s.Outcome, s.PubFault)
}

func handlerScenario(sp handlerSpec) *explore.Scenario {
	return &explore.Scenario{Name: sp.name(), C: sp.C, Body: func() {
		jm := cqrs.JSONMarshaler{}
		cmdMsg, err := jm.Marshal(&Cmd{ID: "c1"})
		if err != nil {
			vs.Fail("setup", "%v", err)
			return
		}
		cmdMsg.UUID = "cmd1"
		cmdMsg.Metadata.Set(requestreply.OperationIDMetadataKey, "op1")
		sub := hx.NewScriptSub("commands", map[string][]*message.Message{"commands": {cmdMsg}})
		sub.Redeliver = 3
		pub := hx.NewScriptPub("replies")
		var current *message.Message
		probes := []string{}
		pub.Outcome = func(call int, topic string, msgs []*message.Message) hx.PubOutcome {
			if sp.PubFault && call == 0 {
				return hx.PubErr
			}
			return hx.PubOK
		}
		pub.Probe = func(c *hx.PubCall) string {
			if current != nil {
				probes = append(probes, hx.SettlementOf(current))
			}
			return ""
		}
		backend, err := requestreply.NewPubSubBackend[Res](requestreply.PubSubBackendConfig{
			Publisher:              pub,
			SubscriberConstructor:  func(requestreply.PubSubBackendSubscribeParams) (message.Subscriber, error) { return nil, nil },
			GenerateSubscribeTopic: func(requestreply.PubSubBackendSubscribeParams) (string, error) { return "reply", nil },
			GeneratePublishTopic:   func(requestreply.PubSubBackendPublishParams) (string, error) { return "reply", nil },
			AckCommandErrors:       sp.AckErrors,
		}, marshaler)
		if err != nil {
			vs.Fail("setup", "%v", err)
			return
		}
		r, _ := message.NewRouter(message.RouterConfig{}, nil)
		proc, err := cqrs.NewCommandProcessorWithConfig(r, cqrs.CommandProcessorConfig{
			GenerateSubscribeTopic: func(cqrs.CommandProcessorGenerateSubscribeTopicParams) (string, error) { return "commands", nil },
			SubscriberConstructor:  func(cqrs.CommandProcessorSubscriberConstructorParams) (message.Subscriber, error) { return sub, nil },
			Marshaler:              jm,
		})
		if err != nil {
			vs.Fail("setup", "%v", err)
			return
		}
		calls := 0
		err = proc.AddHandlers(requestreply.NewCommandHandlerWithResult[Cmd, Res]("h", backend, func(ctx context.Context, c *Cmd) (Res, error) {
			current = cqrs.OriginalMessageFromCtx(ctx)
			calls++
			switch sp.Outcome {
			case "err":
				// an annotated error: its text is the whole chain, not just the root cause
				return Res{Val: fmt.Sprintf("r%d", calls)}, pkgerrors.Wrap(errors.New("handler failed"), "cannot do it")
			case "err-then-ok":
				if calls == 1 {
					return Res{Val: "r1"}, pkgerrors.WithMessage(errors.New("handler failed"), "cannot do it")
				}
			}
			return Res{Val: fmt.Sprintf("r%d", calls)}, nil
		}))
		if err != nil {
			vs.Fail("setup", "%v", err)
			return
		}
		go func() {
			if err := r.Run(context.Background()); err != nil {
				vs.Fail("run-result", "%v", err)
			}
		}()
		<-r.Running()
		vs.Quiesce()
		ds := sub.Snapshot()
		pcs := pub.Snapshot()
		// every invocation produced exactly one reply publish, carrying op id, result and error text
		if len(pcs) != calls {
			vs.Fail("reply-per-invocation", "%d handler invocations but %d reply publishes", calls, len(pcs))
		}
		for i, c := range pcs {
			if c.Topic != "reply" || len(c.Msgs) != 1 {
				vs.Fail("reply-content", "reply publish %d: topic %q, %d messages", i, c.Topic, len(c.Msgs))
				continue
			}
			m := c.Msgs[0]
			if m.Metadata.Get(requestreply.OperationIDMetadataKey) != "op1" {
				vs.Fail("reply-content", "reply %d carries operation id %q", i, m.Metadata.Get(requestreply.OperationIDMetadataKey))
			}
			rep, err := marshaler.UnmarshalReply(m)
			if err != nil {
				vs.Fail("reply-content", "reply %d does not unmarshal: %v", i, err)
				continue
			}
			wantErr := sp.Outcome == "err" || (sp.Outcome == "err-then-ok" && i == 0)
			if rep.HandlerResult.Val != fmt.Sprintf("r%d", i+1) || (rep.Error != nil) != wantErr || (wantErr && rep.Error.Error() != "cannot do it: handler failed") {
				vs.Fail("reply-content", "reply %d: result %q error %v (handler outcome %s)", i, rep.HandlerResult.Val, rep.Error, sp.Outcome)
			}
		}
		for i, p := range probes {
			if p != "unsettled" {
				vs.Fail("settle-after-reply", "command was already %s while reply %d was being published", p, i)
			}
		}
		// settlement of each delivery as AckCommandErrors prescribes
		for i, d := range ds {
			handlerErr := sp.Outcome == "err" || (sp.Outcome == "err-then-ok" && i == 0)
			pubFailed := sp.PubFault && i == 0
			want := "acked"
			if pubFailed || (handlerErr && !sp.AckErrors) {
				want = "nacked"
			}
			if got := hx.SettlementOf(d.Msg); got != want {
				vs.Fail("command-settlement", "delivery %d of the command (handler error=%v, reply publish failed=%v, AckCommandErrors=%v) is %s, expected %s", i, handlerErr, pubFailed, sp.AckErrors, got, want)
			}
		}
		vs.Note("calls=%d deliveries=%d", calls, len(ds))
	}}
}

// Handlers without a result (NewCommandHandler, backend of NoResult): the same ack policy and one reply per
// handling, carrying the error text.
func noResultHandlerScenario(ackErrors bool, c int) *explore.Scenario {
	return &explore.Scenario{Name: fmt.Sprintf("handler-without-result/ackerrors=%v", ackErrors), C: c, DataOnly: c < 0, Body: func() {
		fails := vs.Choose(2, 0, "handler outcome") == 1
		jm := cqrs.JSONMarshaler{}
		cmdMsg, _ := jm.Marshal(&Cmd{ID: "c1"})
		cmdMsg.UUID = "cmd1"
		cmdMsg.Metadata.Set(requestreply.OperationIDMetadataKey, "op1")
		sub := hx.NewScriptSub("commands", map[string][]*message.Message{"commands": {cmdMsg}})
		sub.Redeliver = 2
		pub := hx.NewScriptPub("replies")
		nm := requestreply.BackendPubsubJSONMarshaler[requestreply.NoResult]{}
		backend, err := requestreply.NewPubSubBackend[requestreply.NoResult](requestreply.PubSubBackendConfig{
			Publisher:              pub,
			SubscriberConstructor:  func(requestreply.PubSubBackendSubscribeParams) (message.Subscriber, error) { return nil, nil },
			GenerateSubscribeTopic: func(requestreply.PubSubBackendSubscribeParams) (string, error) { return "reply", nil },
			GeneratePublishTopic:   func(requestreply.PubSubBackendPublishParams) (string, error) { return "reply", nil },
			AckCommandErrors:       ackErrors,
		}, nm)
		if err != nil {
			vs.Fail("setup", "%v", err)
			return
		}
		r, _ := message.NewRouter(message.RouterConfig{}, nil)
		proc, err := cqrs.NewCommandProcessorWithConfig(r, cqrs.CommandProcessorConfig{
			GenerateSubscribeTopic: func(cqrs.CommandProcessorGenerateSubscribeTopicParams) (string, error) { return "commands", nil },
			SubscriberConstructor:  func(cqrs.CommandProcessorSubscriberConstructorParams) (message.Subscriber, error) { return sub, nil },
			Marshaler:              jm,
		})
		if err != nil {
			vs.Fail("setup", "%v", err)
			return
		}
		handlings := 0
		err = proc.AddHandlers(requestreply.NewCommandHandler[Cmd]("h", backend, func(ctx context.Context, c *Cmd) error {
			handlings++
			if fails {
				return fmt.Errorf("handling %d failed", handlings)
			}
			return nil
		}))
		if err != nil {
			vs.Fail("setup", "%v", err)
			return
		}
		go func() {
			if err := r.Run(context.Background()); err != nil {
				vs.Fail("run-result", "%v", err)
			}
		}()
		<-r.Running()
		vs.Quiesce()
		cfg := fmt.Sprintf("handler without result, AckCommandErrors=%v, handler fails=%v", ackErrors, fails)
		ds := sub.Snapshot()
		wantDeliveries := 1
		if fails && !ackErrors {
			wantDeliveries = 3 // nacked and redelivered (the scripted subscriber redelivers twice)
		}
		if len(ds) != wantDeliveries || handlings != wantDeliveries {
			vs.Fail("command-settlement", "%s: %d deliveries and %d handlings, expected %d", cfg, len(ds), handlings, wantDeliveries)
		}
		for i, d := range ds {
			want := "acked"
			if fails && !ackErrors {
				want = "nacked"
			}
			if got := hx.SettlementOf(d.Msg); got != want {
				vs.Fail("command-settlement", "%s: delivery %d is %s, expected %s", cfg, i, got, want)
			}
		}
		pcs := pub.Snapshot()
		if len(pcs) != handlings {
			vs.Fail("reply-per-invocation", "%s: %d handlings but %d reply publishes", cfg, handlings, len(pcs))
		}
		for i, c := range pcs {
			if len(c.Msgs) != 1 {
				continue
			}
			rep, err := nm.UnmarshalReply(c.Msgs[0])
			wantErr := ""
			if fails {
				wantErr = fmt.Sprintf("handling %d failed", i+1)
			}
			gotErr := ""
			if rep.Error != nil {
				gotErr = rep.Error.Error()
			}
			if err != nil || gotErr != wantErr || c.Msgs[0].Metadata.Get(requestreply.OperationIDMetadataKey) != "op1" {
				vs.Fail("reply-content", "%s: reply %d carries error %q (unmarshal %v), expected %q", cfg, i, gotErr, err, wantErr)
			}
		}
		vs.Note("%s deliveries=%d", cfg, len(ds))
	}}
}

// The reply cannot be prepared or published at the first handling (topic generator, ModifyNotificationMessage or
// the publisher fails once): the command is not acknowledged without a published reply, whatever
// AckCommandErrors says (that flag is about handler errors); it is redelivered and then answered.
func replyFaultScenario(ackErrors bool, c int) *explore.Scenario {
	return &explore.Scenario{Name: fmt.Sprintf("handler/reply-cannot-be-sent-once/ackerrors=%v", ackErrors), C: c, DataOnly: c < 0, Body: func() {
		fault := []string{"topic generator", "ModifyNotificationMessage", "publisher", "publisher, error handler passes the error on"}[vs.Choose(4, 0, "what fails at the first handling")]
		jm := cqrs.JSONMarshaler{}
		cmdMsg, _ := jm.Marshal(&Cmd{ID: "c1"})
		cmdMsg.UUID = "cmd1"
		cmdMsg.Metadata.Set(requestreply.OperationIDMetadataKey, "op1")
		sub := hx.NewScriptSub("commands", map[string][]*message.Message{"commands": {cmdMsg}})
		sub.Redeliver = 3
		pub := hx.NewScriptPub("replies")
		pub.Outcome = func(call int, topic string, msgs []*message.Message) hx.PubOutcome {
			if strings.HasPrefix(fault, "publisher") && call == 0 {
				return hx.PubErr
			}
			return hx.PubOK
		}
		handlings := 0
		failOnce := func(what string) error {
			if fault == what && handlings == 1 {
				return errors.New(what + " fails")
			}
			return nil
		}
		cfg := requestreply.PubSubBackendConfig{
			Publisher:              pub,
			SubscriberConstructor:  func(requestreply.PubSubBackendSubscribeParams) (message.Subscriber, error) { return nil, nil },
			GenerateSubscribeTopic: func(requestreply.PubSubBackendSubscribeParams) (string, error) { return "reply", nil },
			GeneratePublishTopic: func(requestreply.PubSubBackendPublishParams) (string, error) {
				return "reply", failOnce("topic generator")
			},
			ModifyNotificationMessage: func(*message.Message, requestreply.PubSubBackendOnCommandProcessedParams) error {
				return failOnce("ModifyNotificationMessage")
			},
			AckCommandErrors: ackErrors,
		}
		if fault == "publisher, error handler passes the error on" {
			cfg.ReplyPublishErrorHandler = func(topic string, m *message.Message, err error) error { return err }
		}
		backend, err := requestreply.NewPubSubBackend[Res](cfg, marshaler)
		if err != nil {
			vs.Fail("setup", "%v", err)
			return
		}
		r, _ := message.NewRouter(message.RouterConfig{}, nil)
		proc, err := cqrs.NewCommandProcessorWithConfig(r, cqrs.CommandProcessorConfig{
			GenerateSubscribeTopic: func(cqrs.CommandProcessorGenerateSubscribeTopicParams) (string, error) { return "commands", nil },
			SubscriberConstructor:  func(cqrs.CommandProcessorSubscriberConstructorParams) (message.Subscriber, error) { return sub, nil },
			Marshaler:              jm,
		})
		if err != nil {
			vs.Fail("setup", "%v", err)
			return
		}
		err = proc.AddHandlers(requestreply.NewCommandHandlerWithResult[Cmd, Res]("h", backend, func(ctx context.Context, c *Cmd) (Res, error) {
			handlings++
			return Res{Val: fmt.Sprintf("r%d", handlings)}, nil
		}))
		if err != nil {
			vs.Fail("setup", "%v", err)
			return
		}
		go func() {
			if err := r.Run(context.Background()); err != nil {
				vs.Fail("run-result", "%v", err)
			}
		}()
		<-r.Running()
		vs.Quiesce()
		okReplies := 0
		for _, c := range pub.Snapshot() {
			if c.Outcome == hx.PubOK {
				okReplies += len(c.Msgs)
			}
		}
		ds := sub.Snapshot()
		state := ""
		acked := 0
		for _, d := range ds {
			st := hx.SettlementOf(d.Msg)
			state += st + " "
			if st == "acked" {
				acked++
			}
		}
		cfgs := fmt.Sprintf("AckCommandErrors=%v, %s fails at the first handling", ackErrors, fault)
		if len(ds) < 1 || hx.SettlementOf(ds[0].Msg) != "nacked" {
			vs.Fail("command-settlement", "%s: no reply was published for the first delivery, yet the command is [%s] (it must be nacked)", cfgs, state)
		}
		if acked > okReplies {
			vs.Fail("command-settlement", "%s: %d deliveries acked but only %d replies published", cfgs, acked, okReplies)
		}
		if len(ds) != 2 || handlings != 2 || okReplies != 1 || acked != 1 {
			vs.Fail("reply-per-invocation", "%s: %d deliveries [%s], %d handlings, %d replies published: expected the redelivered command to be handled and answered once", cfgs, len(ds), state, handlings, okReplies)
		}
		vs.Note("%s: %s", cfgs, state)
	}}
}

// ---- family C: end to end on a shared reply topic ------------------------------------------------------------

func e2eScenario(R int, replies bool, c int) *explore.Scenario { return e2eScenarioX(R, replies, c, false) }

// blockingBus: the commands travel over a Pub/Sub whose Publish returns only once the command was handled and acked (a
// blocking GoChannel here): the reply is then on its way before Send returns, so it must already be listened for
func e2eScenarioX(R int, replies bool, c int, blockingBus bool) *explore.Scenario {
	name := fmt.Sprintf("e2e/requesters%d", R)
	if replies {
		name += "/SendWithReplies"
	}
	if blockingBus {
		name += "/blocking-command-bus"
	}
	return &explore.Scenario{Name: name, C: c, DataOnly: c < 0, Opts: vs.Options{MaxSteps: 100000}, Body: func() {
		g := gochannel.NewGoChannel(gochannel.Config{}, nil)
		jm := cqrs.JSONMarshaler{}
		finished := 0
		backend, err := requestreply.NewPubSubBackend[Res](requestreply.PubSubBackendConfig{
			Publisher:                g,
			SubscriberConstructor:    func(requestreply.PubSubBackendSubscribeParams) (message.Subscriber, error) { return g, nil },
			GenerateSubscribeTopic:   func(requestreply.PubSubBackendSubscribeParams) (string, error) { return "reply", nil },
			GeneratePublishTopic:     func(requestreply.PubSubBackendPublishParams) (string, error) { return "reply", nil },
			OnListenForReplyFinished: func(context.Context, requestreply.PubSubBackendSubscribeParams) { finished++ },
			AckCommandErrors:         true,
		}, marshaler)
		if err != nil {
			vs.Fail("setup", "%v", err)
			return
		}
		r, _ := message.NewRouter(message.RouterConfig{}, nil)
		gc := g // the Pub/Sub of the commands
		if blockingBus {
			gc = gochannel.NewGoChannel(gochannel.Config{BlockPublishUntilSubscriberAck: true}, nil)
		}
		bus, err := cqrs.NewCommandBusWithConfig(gc, cqrs.CommandBusConfig{
			GeneratePublishTopic: func(cqrs.CommandBusGeneratePublishTopicParams) (string, error) { return "commands", nil },
			Marshaler:            jm,
		})
		if err != nil {
			vs.Fail("setup", "%v", err)
			return
		}
		proc, err := cqrs.NewCommandProcessorWithConfig(r, cqrs.CommandProcessorConfig{
			GenerateSubscribeTopic: func(cqrs.CommandProcessorGenerateSubscribeTopicParams) (string, error) { return "commands", nil },
			SubscriberConstructor:  func(cqrs.CommandProcessorSubscriberConstructorParams) (message.Subscriber, error) { return gc, nil },
			Marshaler:              jm,
		})
		if err != nil {
			vs.Fail("setup", "%v", err)
			return
		}
		err = proc.AddHandlers(requestreply.NewCommandHandlerWithResult[Cmd, Res]("h", backend, func(ctx context.Context, c *Cmd) (Res, error) {
			if strings.HasSuffix(c.ID, "1") {
				return Res{Val: "res-" + c.ID}, errors.New("err-" + c.ID)
			}
			return Res{Val: "res-" + c.ID}, nil
		}))
		if err != nil {
			vs.Fail("setup", "%v", err)
			return
		}
		go func() {
			if err := r.Run(context.Background()); err != nil {
				vs.Fail("run-result", "%v", err)
			}
		}()
		<-r.Running()
		var wg vs.WaitGroup
		for i := 0; i < R; i++ {
			id := fmt.Sprintf("cmd%d", i)
			wg.Add(1)
			go func() {
				defer wg.Done()
				var rep requestreply.Reply[Res]
				if replies {
					ch, cancel, err := requestreply.SendWithReplies[Res](context.Background(), bus, backend, &Cmd{ID: id})
					if err != nil {
						vs.Fail("send-error", "%v", err)
						return
					}
					rep = <-ch
					cancel()
				} else {
					var err error
					rep, err = requestreply.SendWithReply[Res](context.Background(), bus, backend, &Cmd{ID: id})
					if err != nil {
						vs.Fail("send-error", "%v", err)
						return
					}
				}
				wantErr := ""
				if strings.HasSuffix(id, "1") {
					wantErr = "err-" + id
				}
				gotErr := ""
				if rep.Error != nil {
					gotErr = rep.Error.Error()
				}
				if rep.HandlerResult.Val != "res-"+id || gotErr != wantErr {
					vs.Fail("own-replies-only", "requester of %s received result %q error %q", id, rep.HandlerResult.Val, gotErr)
				}
			}()
		}
		wg.Wait() // hang = a requester that never gets its reply
		vs.Quiesce()
		if finished != R {
			vs.Fail("finished-hook-once", "%d requests but OnListenForReplyFinished ran %d times", R, finished)
		}
		if l := leaked(); len(l) > 0 {
			vs.Fail("listener-terminates", "listener goroutines alive after all requesters cancelled: %s", strings.Join(l, "; "))
		}
		vs.Note("ok")
	}}
}

// Several replies for one command: with AckCommandErrors=false a failing command is nacked, redelivered and
// handled again, and every handling publishes a reply; the requester reads until a reply without error.
// A second requester shares the reply topic.
func e2eRedeliveryScenario(c int) *explore.Scenario {
	return &explore.Scenario{Name: "e2e/redelivered-command/SendWithReplies", C: c, DataOnly: c < 0, Opts: vs.Options{MaxSteps: 100000}, Body: func() {
		g := gochannel.NewGoChannel(gochannel.Config{}, nil)
		jm := cqrs.JSONMarshaler{}
		finished := 0
		backend, err := requestreply.NewPubSubBackend[Res](requestreply.PubSubBackendConfig{
			Publisher:                g,
			SubscriberConstructor:    func(requestreply.PubSubBackendSubscribeParams) (message.Subscriber, error) { return g, nil },
			GenerateSubscribeTopic:   func(requestreply.PubSubBackendSubscribeParams) (string, error) { return "reply", nil },
			GeneratePublishTopic:     func(requestreply.PubSubBackendPublishParams) (string, error) { return "reply", nil },
			OnListenForReplyFinished: func(context.Context, requestreply.PubSubBackendSubscribeParams) { finished++ },
			AckCommandErrors:         false,
		}, marshaler)
		if err != nil {
			vs.Fail("setup", "%v", err)
			return
		}
		r, _ := message.NewRouter(message.RouterConfig{}, nil)
		bus, _ := cqrs.NewCommandBusWithConfig(g, cqrs.CommandBusConfig{
			GeneratePublishTopic: func(cqrs.CommandBusGeneratePublishTopicParams) (string, error) { return "commands", nil },
			Marshaler:            jm,
		})
		proc, err := cqrs.NewCommandProcessorWithConfig(r, cqrs.CommandProcessorConfig{
			GenerateSubscribeTopic: func(cqrs.CommandProcessorGenerateSubscribeTopicParams) (string, error) { return "commands", nil },
			SubscriberConstructor:  func(cqrs.CommandProcessorSubscriberConstructorParams) (message.Subscriber, error) { return g, nil },
			Marshaler:              jm,
		})
		if err != nil {
			vs.Fail("setup", "%v", err)
			return
		}
		handled := map[string]int{}
		failFirst := 1 + vs.Choose(2, 0, "failed handlings of the first command")
		err = proc.AddHandlers(requestreply.NewCommandHandlerWithResult[Cmd, Res]("h", backend, func(ctx context.Context, c *Cmd) (Res, error) {
			handled[c.ID]++
			if c.ID == "cmd0" && handled[c.ID] <= failFirst {
				return Res{Val: fmt.Sprintf("res-%s-%d", c.ID, handled[c.ID])}, fmt.Errorf("err-%s-%d", c.ID, handled[c.ID])
			}
			return Res{Val: fmt.Sprintf("res-%s-%d", c.ID, handled[c.ID])}, nil
		}))
		if err != nil {
			vs.Fail("setup", "%v", err)
			return
		}
		go func() {
			if err := r.Run(context.Background()); err != nil {
				vs.Fail("run-result", "%v", err)
			}
		}()
		<-r.Running()
		var wg vs.WaitGroup
		for i := 0; i < 2; i++ {
			id := fmt.Sprintf("cmd%d", i)
			wg.Add(1)
			go func() {
				defer wg.Done()
				ch, cancel, err := requestreply.SendWithReplies[Res](context.Background(), bus, backend, &Cmd{ID: id})
				if err != nil {
					vs.Fail("send-error", "%v", err)
					return
				}
				defer cancel()
				// one reply per handling of this requester's command; the Pub/Sub may deliver them in any order, so
				// each reply is matched with the handling it names; the requester reads until the successful one
				want := 1
				if id == "cmd0" {
					want = failFirst + 1
				}
				seen := map[int]bool{}
				for rep := range ch {
					k := 0
					fmt.Sscanf(rep.HandlerResult.Val, "res-"+id+"-%d", &k)
					wantErr := ""
					if id == "cmd0" && k <= failFirst {
						wantErr = fmt.Sprintf("err-%s-%d", id, k)
					}
					gotErr := ""
					if rep.Error != nil {
						gotErr = rep.Error.Error()
					}
					if k < 1 || k > want || seen[k] || gotErr != wantErr {
						vs.Fail("own-replies-only", "requester of %s received a reply with result %q error %q (replies so far %v, %d handlings expected)", id, rep.HandlerResult.Val, gotErr, seen, want)
					}
					seen[k] = true
					if rep.Error == nil {
						break
					}
				}
				if !seen[want] {
					vs.Fail("own-replies-only", "requester of %s never received the reply of the successful handling %d (got %v)", id, want, seen)
				}
			}()
		}
		wg.Wait() // hang = a reply that never arrives
		vs.Quiesce()
		if handled["cmd0"] != failFirst+1 || handled["cmd1"] != 1 {
			vs.Fail("ack-policy", "AckCommandErrors=false: handlings %v, expected cmd0 %d times (nacked and redelivered after each error) and cmd1 once", handled, failFirst+1)
		}
		if finished != 2 {
			vs.Fail("finished-hook-once", "2 requests but OnListenForReplyFinished ran %d times", finished)
		}
		if l := leaked(); len(l) > 0 {
			vs.Fail("listener-terminates", "listener goroutines alive after all requesters cancelled: %s", strings.Join(l, "; "))
		}
		vs.Note("ok failFirst=%d", failFirst)
	}}
}

func init() {
	reg.AddW("C18", e2eRedeliveryScenario(-1).Name, reg.Quick, 10, func(t reg.Tier) *explore.Scenario {
		if t == reg.Thorough {
			return e2eRedeliveryScenario(0)
		}
		return e2eRedeliveryScenario(-1)
	})
	addL := func(tier reg.Tier, w int, sp listenSpec, ct int) {
		sc := listenScenario(sp)
		reg.AddW("C18", sc.Name, tier, w, func(t reg.Tier) *explore.Scenario {
			x := sp
			if t == reg.Thorough {
				x.C = ct
			}
			return listenScenario(x)
		})
	}
	for _, caller := range []string{"drain", "one-then-cancel", "never-read", "cancel-first", "timeout", "timeout-never-read", "timeout-read-one"} {
		for _, n := range []int{0, 1, 2, 3} {
			tier := reg.Quick
			if n == 3 {
				tier = reg.Thorough
			}
			addL(tier, n+1, listenSpec{Replies: n, Caller: caller, C: 2}, 3)
		}
	}
	for _, ack := range []bool{false, true} {
		for _, oc := range []string{"ok", "err", "err-then-ok"} {
			for _, pf := range []bool{false, true} {
				sp := handlerSpec{AckErrors: ack, Outcome: oc, PubFault: pf, C: 0}
				reg.AddW("C18", sp.name(), reg.Quick, 5, func(t reg.Tier) *explore.Scenario {
					x := sp
					if t == reg.Thorough {
						x.C = 1
					}
					return handlerScenario(x)
				})
			}
		}
	}
	for _, ack := range []bool{false, true} {
		ack := ack
		reg.AddW("C18", noResultHandlerScenario(ack, -1).Name, reg.Quick, 5, func(t reg.Tier) *explore.Scenario {
			if t == reg.Thorough {
				return noResultHandlerScenario(ack, 0)
			}
			return noResultHandlerScenario(ack, -1)
		})
	}
	for _, ack := range []bool{false, true} {
		ack := ack
		reg.AddW("C18", replyFaultScenario(ack, -1).Name, reg.Quick, 5, func(t reg.Tier) *explore.Scenario {
			if t == reg.Thorough {
				return replyFaultScenario(ack, 0)
			}
			return replyFaultScenario(ack, -1)
		})
	}
	reg.AddW("C18", e2eScenario(1, false, 0).Name, reg.Quick, 10, func(t reg.Tier) *explore.Scenario { return e2eScenario(1, false, 0) })
	reg.AddW("C18", e2eScenarioX(1, true, 0, true).Name, reg.Quick, 10, func(t reg.Tier) *explore.Scenario { return e2eScenarioX(1, true, 0, true) })
	reg.AddW("C18", e2eScenarioX(2, false, -1, true).Name, reg.Quick, 5, func(t reg.Tier) *explore.Scenario { return e2eScenarioX(2, false, -1, true) })
	reg.AddW("C18", e2eScenario(2, false, -1).Name, reg.Quick, 10, func(t reg.Tier) *explore.Scenario { return e2eScenario(2, false, -1) })
	reg.AddW("C18", e2eScenario(2, true, -1).Name, reg.Quick, 10, func(t reg.Tier) *explore.Scenario { return e2eScenario(2, true, -1) })
	reg.AddW("C18", e2eScenario(3, false, -1).Name, reg.Thorough, 20, func(t reg.Tier) *explore.Scenario { return e2eScenario(3, false, -1) })
}
