// Package c17: relay components (Forwarder, FanIn, FanOut, Requeuer) neither lose nor invent.
package c17

import (
	"context"
	"fmt"
	"strconv"
	"time"

	"github.com/ThreeDotsLabs/watermill"
	"github.com/ThreeDotsLabs/watermill/components/fanin"
	"github.com/ThreeDotsLabs/watermill/components/forwarder"
	"github.com/ThreeDotsLabs/watermill/components/requeuer"
	"github.com/ThreeDotsLabs/watermill/message"
	"github.com/ThreeDotsLabs/watermill/pubsub/gochannel"

	"verif/explore"
	"verif/harness/hx"
	"verif/harness/reg"
	"verif/vs"
)

// message alphabet: index -> message
func alphabetMsg(i int, uuid string) *message.Message {
	m := message.NewMessage(uuid, []byte("payload-"+uuid))
	switch i {
	case 0: // no metadata, empty payload
		m.Payload = nil
	case 1:
		m.Metadata.Set("k", "v")
		m.Metadata["empty"] = ""
		// payloads are bytes, not text: a gzip header, a lone continuation byte, a NUL
		m.Payload = []byte{0x1f, 0x8b, 0x08, 0x00, 0x80, 0xff, 'x'}
	case 2:
		m.Metadata.Set(requeuer.RetriesKey, "0")
	case 3:
		m.Metadata.Set(requeuer.RetriesKey, "1")
		m.Metadata.Set("k", "é\n\"")
	case 4:
		m.Metadata.Set(requeuer.RetriesKey, "7")
	case 5:
		m.Metadata.Set(requeuer.RetriesKey, "not-a-number")
	}
	return m
}

const nAlphabet = 6

// destination failure: outcome of the k-th destination call chosen under the fault budget
func faultyDest(name string, maxFaulty int) *hx.ScriptPub {
	p := hx.NewScriptPub(name)
	p.Outcome = func(call int, topic string, msgs []*message.Message) hx.PubOutcome {
		if call < maxFaulty {
			return hx.PubOutcome(vs.Choose(2, 1, "destination failure")) // 0 ok, 1 error
		}
		return hx.PubOK
	}
	return p
}

// settleCheck: every delivery whose destination call failed is nacked, every delivery acked only after an
// accepting call; returns nothing, fails through vs.Fail.
type relayed struct {
	uuid          string
	topic         string
	meta          message.Metadata
	pay           string
	ok            bool
	settledInside string
}

func runRouterLike(run func(context.Context) error, running func() chan struct{}) {
	go func() {
		if err := run(context.Background()); err != nil {
			vs.Fail("run-result", "%v", err)
		}
	}()
	<-running()
}

// forwarder.Publisher: what it reports is what the publisher underneath did (a message is not lost behind a
// reported success), one enveloped message per message, on the forwarder topic.
func forwarderPublisherScenario() *explore.Scenario {
	return &explore.Scenario{Name: "forwarder-publisher/inner-failures", C: -1, DataOnly: true, Body: func() {
		inner := hx.NewScriptPub("inner")
		fails := vs.Choose(2, 0, "inner publisher") == 1
		inner.Outcome = func(int, string, []*message.Message) hx.PubOutcome {
			if fails {
				return hx.PubErr
			}
			return hx.PubOK
		}
		fp := forwarder.NewPublisher(inner, forwarder.PublisherConfig{ForwarderTopic: "fwd"})
		n := 1 + vs.Choose(3, 0, "batch size")
		var batch []*message.Message
		for i := 0; i < n; i++ {
			batch = append(batch, alphabetMsg(vs.Choose(nAlphabet, 0, "message"), fmt.Sprintf("u%d", i)))
		}
		err := fp.Publish("dest", batch...)
		if (err != nil) != fails {
			vs.Fail("forwarder-publisher", "inner publisher failed=%v but forwarder.Publisher returned %v", fails, err)
		}
		got := 0
		for _, c := range inner.Snapshot() {
			if c.Topic != "fwd" {
				vs.Fail("forwarder-publisher", "published on %q instead of the forwarder topic", c.Topic)
			}
			got += len(c.Msgs)
		}
		if got != n {
			vs.Fail("forwarder-publisher", "%d messages published through forwarder.Publisher, %d envelopes handed to the publisher underneath", n, got)
		}
		if err := fp.Close(); err != nil || inner.CloseCalls != 1 {
			vs.Fail("forwarder-publisher", "Close: %v, inner Close calls %d", err, inner.CloseCalls)
		}
		vs.Note("n=%d fails=%v", n, fails)
	}}
}

// ---- Forwarder -------------------------------------------------------------------------------------------

func forwarderScenario(ackBad bool, n, f, c int) *explore.Scenario {
	name := fmt.Sprintf("forwarder/ackWhenCannotUnwrap=%v/n%d/f%d", ackBad, n, f)
	return &explore.Scenario{Name: name, C: c, F: f, DataOnly: c < 0, Body: func() {
		// stream: each element is a valid envelope (destination topic + alphabet message) or a malformed one
		capture := hx.NewScriptPub("capture")
		fp := forwarder.NewPublisher(capture, forwarder.PublisherConfig{ForwarderTopic: "fwd"})
		type item struct {
			valid bool
			dest  string
			orig  *message.Message
		}
		var items []item
		var script []*message.Message
		for i := 0; i < n; i++ {
			k := vs.Choose(nAlphabet+4, 0, "stream element")
			switch {
			case k < nAlphabet:
				dest := []string{"dest-a", "dest b/ü"}[i%2]
				orig := alphabetMsg(k, fmt.Sprintf("u%d", i))
				if err := fp.Publish(dest, orig); err != nil {
					vs.Fail("forwarder-publisher", "Publish through forwarder.Publisher failed: %v", err)
					return
				}
				calls := capture.Snapshot()
				last := calls[len(calls)-1]
				if last.Topic != "fwd" || len(last.Msgs) != 1 {
					vs.Fail("forwarder-publisher", "forwarder.Publisher published %d messages on %q", len(last.Msgs), last.Topic)
					return
				}
				script = append(script, last.Msgs[0])
				items = append(items, item{true, dest, orig})
			case k == nAlphabet:
				script = append(script, message.NewMessage(fmt.Sprintf("bad%d", i), []byte("not json")))
				items = append(items, item{})
			case k == nAlphabet+2 || k == nAlphabet+3:
				// a complete envelope followed by something else is not a valid envelope
				if err := fp.Publish("dest-a", alphabetMsg(1, fmt.Sprintf("glued%d", i))); err != nil {
					vs.Fail("forwarder-publisher", "%v", err)
					return
				}
				calls := capture.Snapshot()
				env := calls[len(calls)-1].Msgs[0]
				tail := []byte(" trailing garbage")
				if k == nAlphabet+3 {
					tail = env.Payload // a second envelope glued on
				}
				script = append(script, message.NewMessage(fmt.Sprintf("bad%d", i), append(append([]byte{}, env.Payload...), tail...)))
				items = append(items, item{})
			default:
				script = append(script, message.NewMessage(fmt.Sprintf("bad%d", i), []byte(`{"uuid":"x","payload":"eA=="}`)))
				items = append(items, item{})
			}
		}
		sub := hx.NewScriptSub("in", map[string][]*message.Message{"fwd": script})
		sub.Redeliver = 1
		dest := faultyDest("dest", 2)
		var current *message.Message
		insideSettle := map[*hx.PubCall]string{}
		dest.Probe = func(c *hx.PubCall) string { insideSettle[c] = hx.SettlementOf(current); return "" }
		fw, err := forwarder.NewForwarder(sub, dest, watermill.NopLogger{}, forwarder.Config{ForwarderTopic: "fwd", AckWhenCannotUnwrap: ackBad,
			Middlewares: []message.HandlerMiddleware{func(h message.HandlerFunc) message.HandlerFunc {
				return func(m *message.Message) ([]*message.Message, error) { current = m; return h(m) }
			}}})
		if err != nil {
			vs.Fail("setup", "%v", err)
			return
		}
		runRouterLike(fw.Run, fw.Running)
		vs.Quiesce()
		ds := sub.Snapshot()
		calls := dest.Snapshot()
		ci := 0
		desc := ""
		for _, d := range ds {
			idx := -1
			for i, s := range script {
				if s.UUID == d.UUID {
					idx = i
				}
			}
			it := items[idx]
			st := hx.SettlementOf(d.Msg)
			if !it.valid {
				want := "nacked"
				if ackBad {
					want = "acked"
				}
				if st != want {
					vs.Fail("invalid-envelope", "malformed envelope %s is %s, AckWhenCannotUnwrap=%v", d.UUID, st, ackBad)
				}
				desc += "bad:" + st + " "
				continue
			}
			if ci >= len(calls) {
				vs.Fail("relay", "valid envelope for %s was consumed but never reached the destination publisher", it.orig.UUID)
				break
			}
			c := calls[ci]
			ci++
			if c.Topic != it.dest {
				vs.Fail("relay-topic", "message %s forwarded to %q, expected %q", it.orig.UUID, c.Topic, it.dest)
			}
			if len(c.Msgs) != 1 || !hx.SameContent(c.Msgs[0], it.orig) {
				vs.Fail("relay-content", "message %s arrived at the destination changed: %v", it.orig.UUID, c.Msgs)
			}
			if insideSettle[c] != "unsettled" {
				vs.Fail("ack-after-accept", "envelope of %s was %s while the destination publish was in progress", it.orig.UUID, insideSettle[c])
			}
			want := "acked"
			if c.Outcome != hx.PubOK {
				want = "nacked"
			}
			if st != want {
				vs.Fail("settlement", "envelope of %s: destination outcome %d but the consumed message is %s", it.orig.UUID, c.Outcome, st)
			}
			desc += fmt.Sprintf("%s->%s:%s ", it.orig.UUID, c.Topic, st)
		}
		if ci != len(calls) {
			vs.Fail("no-invention", "%d destination calls for %d valid consumed envelopes", len(calls), ci)
		}
		vs.Note("%s", desc)
	}}
}

// ---- FanIn -------------------------------------------------------------------------------------------------

func fanInScenario(topics, n, f, c int) *explore.Scenario {
	return &explore.Scenario{Name: fmt.Sprintf("fanin/topics%d/n%d/f%d", topics, n, f), C: c, F: f, DataOnly: c < 0, Body: func() {
		script := map[string][]*message.Message{}
		origs := map[string]*message.Message{}
		var src []string
		for t := 0; t < topics; t++ {
			tn := fmt.Sprintf("src%d", t)
			src = append(src, tn)
			for i := 0; i < n; i++ {
				m := alphabetMsg(vs.Choose(nAlphabet, 0, "message"), fmt.Sprintf("%s-u%d", tn, i))
				script[tn] = append(script[tn], m)
				origs[m.UUID] = m
			}
		}
		sub := hx.NewScriptSub("in", script)
		sub.Redeliver = 1
		dest := faultyDest("dest", 2)
		fi, err := fanin.NewFanIn(sub, dest, fanin.Config{SourceTopics: src, TargetTopic: "target"}, nil)
		if err != nil {
			vs.Fail("setup", "%v", err)
			return
		}
		runRouterLike(fi.Run, fi.Running)
		vs.Quiesce()
		checkPassThrough("fanin", sub, dest, origs, func(string) string { return "target" })
	}}
}

// checkPassThrough: destination calls vs deliveries for components that relay the consumed message itself.
func checkPassThrough(comp string, sub *hx.ScriptSub, dest *hx.ScriptPub, origs map[string]*message.Message, topicOf func(uuid string) string) {
	calls := dest.Snapshot()
	byMsg := map[*message.Message]*hx.PubCall{}
	for _, c := range calls {
		if len(c.Msgs) != 1 {
			vs.Fail("relay-content", "%s: destination call with %d messages", comp, len(c.Msgs))
			continue
		}
		byMsg[c.Msgs[0]] = c
		o := origs[c.Msgs[0].UUID]
		if o == nil {
			vs.Fail("no-invention", "%s: destination received %q which was never consumed", comp, c.Msgs[0].UUID)
			continue
		}
		if c.Topic != topicOf(o.UUID) {
			vs.Fail("relay-topic", "%s: %s relayed to %q, expected %q", comp, o.UUID, c.Topic, topicOf(o.UUID))
		}
		if !hx.SameContent(c.Msgs[0], o) {
			vs.Fail("relay-content", "%s: %s arrived changed: metadata %v payload %q", comp, o.UUID, c.Msgs[0].Metadata, c.Msgs[0].Payload)
		}
	}
	desc := ""
	for _, d := range sub.Snapshot() {
		st := hx.SettlementOf(d.Msg)
		c := byMsg[d.Msg]
		if c == nil {
			vs.Fail("relay", "%s: consumed copy of %s never reached the destination", comp, d.UUID)
			continue
		}
		want := "acked"
		if c.Outcome != hx.PubOK {
			want = "nacked"
		}
		if st != want {
			vs.Fail("settlement", "%s: %s: destination outcome %d but consumed message is %s", comp, d.UUID, c.Outcome, st)
		}
		desc += fmt.Sprintf("%s#%d:%s ", d.UUID, d.Attempt, st)
	}
	vs.Note("%s", desc)
}

// ---- Requeuer -----------------------------------------------------------------------------------------------

func requeuerScenario(fromMeta bool, delay time.Duration, n, f, c int) *explore.Scenario {
	return &explore.Scenario{Name: fmt.Sprintf("requeuer/topicFromMetadata=%v/delay=%v/n%d/f%d", fromMeta, delay, n, f), C: c, F: f, DataOnly: c < 0, Body: func() {
		var script []*message.Message
		prev := map[string]string{}
		origs := map[string]*message.Message{}
		for i := 0; i < n; i++ {
			m := alphabetMsg(vs.Choose(nAlphabet, 0, "message"), fmt.Sprintf("u%d", i))
			m.Metadata.Set("return-to", fmt.Sprintf("topic-%d", i))
			script = append(script, m)
			prev[m.UUID] = m.Metadata.Get(requeuer.RetriesKey)
			origs[m.UUID] = hx.Clone(m)
		}
		sub := hx.NewScriptSub("in", map[string][]*message.Message{"poison": script})
		sub.Redeliver = 1
		dest := faultyDest("dest", 2)
		noTopic := map[*message.Message]bool{}
		rq, err := requeuer.NewRequeuer(requeuer.Config{
			Subscriber: sub, SubscribeTopic: "poison", Publisher: dest, Delay: delay,
			GeneratePublishTopic: func(p requeuer.GeneratePublishTopicParams) (string, error) {
				// the destination may be impossible to compute for a delivery (a fault like a failing destination)
				if vs.Choose(2, 1, "topic generator fails") == 1 {
					noTopic[p.Message] = true
					return "", fmt.Errorf("no destination for this message")
				}
				if fromMeta {
					return p.Message.Metadata.Get("return-to"), nil
				}
				return "constant", nil
			},
		}, nil)
		if err != nil {
			vs.Fail("setup", "%v", err)
			return
		}
		go func() {
			if err := rq.Run(context.Background()); err != nil {
				vs.Fail("run-result", "%v", err)
			}
		}()
		if delay > 0 {
			time.Sleep(20 * delay) // virtual time: lets every delayed requeue (and redelivery) happen
		}
		vs.Quiesce()
		calls := dest.Snapshot()
		byMsg := map[*message.Message]*hx.PubCall{}
		for _, c := range calls {
			if len(c.Msgs) != 1 {
				vs.Fail("relay-content", "requeuer: destination call with %d messages", len(c.Msgs))
				continue
			}
			m := c.Msgs[0]
			byMsg[m] = c
			o := origs[m.UUID]
			if o == nil {
				vs.Fail("no-invention", "requeuer: destination received %q", m.UUID)
				continue
			}
			wantTopic := "constant"
			if fromMeta {
				wantTopic = o.Metadata.Get("return-to")
			}
			if c.Topic != wantTopic {
				vs.Fail("relay-topic", "requeuer: %s requeued to %q, expected %q", m.UUID, c.Topic, wantTopic)
			}
			p, err := strconv.Atoi(prev[m.UUID])
			if err != nil {
				p = 0
			}
			if got := m.Metadata.Get(requeuer.RetriesKey); got != strconv.Itoa(p+1) {
				vs.Fail("retries-plus-one", "requeuer: %s had retries %q, requeued with %q", m.UUID, prev[m.UUID], got)
			}
			// everything else intact
			cp := hx.Clone(m)
			delete(cp.Metadata, requeuer.RetriesKey)
			oc := hx.Clone(o)
			delete(oc.Metadata, requeuer.RetriesKey)
			if !hx.SameContent(cp, oc) {
				vs.Fail("relay-content", "requeuer: %s arrived changed: %v", m.UUID, m.Metadata)
			}
		}
		desc := ""
		for _, d := range sub.Snapshot() {
			st := hx.SettlementOf(d.Msg)
			c := byMsg[d.Msg]
			if c == nil && noTopic[d.Msg] {
				// no destination could be computed for this delivery: nothing accepted it, so it is not acknowledged
				if st != "nacked" {
					vs.Fail("settlement", "requeuer: no destination topic for %s (copy #%d), yet the consumed message is %s", d.UUID, d.Attempt, st)
				}
				desc += fmt.Sprintf("%s#%d:%s(no topic) ", d.UUID, d.Attempt, st)
				continue
			}
			if c == nil {
				vs.Fail("relay", "requeuer: consumed copy of %s never reached the destination", d.UUID)
				continue
			}
			want := "acked"
			if c.Outcome != hx.PubOK {
				want = "nacked"
			}
			if st != want {
				vs.Fail("settlement", "requeuer: %s: destination outcome %d but consumed message is %s", d.UUID, c.Outcome, st)
			}
			desc += fmt.Sprintf("%s#%d:%s ", d.UUID, d.Attempt, st)
		}
		if delay > 0 && len(calls)+len(noTopic) != len(sub.Snapshot()) {
			vs.Fail("relay", "requeuer with delay: %d deliveries but %d destination calls", len(sub.Snapshot()), len(calls))
		}
		vs.Note("%s", desc)
	}}
}

// The Requeuer is stopped (Run's context cancelled) before, during or after the delay it waits before
// requeueing: whatever happens, a consumed message is acknowledged only after the destination accepted it.
func requeuerStopScenario(delay time.Duration, c int) *explore.Scenario {
	return &explore.Scenario{Name: fmt.Sprintf("requeuer/stop-during-delay/delay=%v/c%d", delay, c), C: c, DataOnly: c < 0, Body: func() {
		m := alphabetMsg(vs.Choose(nAlphabet, 0, "message"), "u0")
		sub := hx.NewScriptSub("in", map[string][]*message.Message{"poison": {m}})
		sub.Redeliver = 1
		dest := faultyDest("dest", 1)
		rq, err := requeuer.NewRequeuer(requeuer.Config{
			Subscriber: sub, SubscribeTopic: "poison", Publisher: dest, Delay: delay,
			GeneratePublishTopic: func(p requeuer.GeneratePublishTopicParams) (string, error) { return "constant", nil },
		}, nil)
		if err != nil {
			vs.Fail("setup", "%v", err)
			return
		}
		ctx, cancel := context.WithCancel(context.Background())
		go func() {
			if err := rq.Run(ctx); err != nil {
				vs.Fail("run-result", "%v", err)
			}
		}()
		stopAfter := []time.Duration{0, delay / 2, delay, delay + delay/2, 3 * delay}[vs.Choose(5, 0, "stop after")]
		if stopAfter > 0 {
			time.Sleep(stopAfter)
		}
		cancel()
		vs.Quiesce()
		accepted := map[*message.Message]bool{}
		for _, c := range dest.Snapshot() {
			for _, pm := range c.Msgs {
				if c.Outcome == hx.PubOK {
					accepted[pm] = true
				}
			}
		}
		desc := fmt.Sprintf("stop after %v: ", stopAfter)
		for _, d := range sub.Snapshot() {
			st := hx.SettlementOf(d.Msg)
			if d.Acked() && !accepted[d.Msg] {
				vs.Fail("ack-only-after-accepted", "requeuer (delay %v) stopped after %v: consumed copy #%d of %s is acked but the destination never accepted it (%d destination calls)", delay, stopAfter, d.Attempt, d.UUID, len(dest.Snapshot()))
			}
			if accepted[d.Msg] && st == "nacked" {
				vs.Fail("settlement", "requeuer (delay %v) stopped after %v: the destination accepted copy #%d of %s but it was nacked", delay, stopAfter, d.Attempt, d.UUID)
			}
			desc += fmt.Sprintf("%s#%d:%s ", d.UUID, d.Attempt, st)
		}
		vs.Note("%s calls=%d", desc, len(dest.Snapshot()))
	}}
}

// ---- FanOut -----------------------------------------------------------------------------------------------

func fanOutScenario(subs, n, c int) *explore.Scenario {
	return &explore.Scenario{Name: fmt.Sprintf("fanout/subs%d/n%d", subs, n), C: c, DataOnly: c < 0, Opts: vs.Options{MaxSteps: 60000}, Body: func() {
		var script []*message.Message
		origs := map[string]*message.Message{}
		for i := 0; i < n; i++ {
			m := alphabetMsg(vs.Choose(nAlphabet, 0, "message"), fmt.Sprintf("u%d", i))
			script = append(script, m)
			origs[m.UUID] = m
		}
		src := hx.NewScriptSub("in", map[string][]*message.Message{"t": script})
		src.Gate = make(chan struct{})
		fo, err := gochannel.NewFanOut(src, nil)
		if err != nil {
			vs.Fail("setup", "%v", err)
			return
		}
		fo.AddSubscription("t")
		fo.AddSubscription("t") // idempotent
		got := make([][]*message.Message, subs)
		for s := 0; s < subs; s++ {
			s := s
			ch, err := fo.Subscribe(context.Background(), "t")
			if err != nil {
				vs.Fail("subscribe-error", "%v", err)
				return
			}
			go func() {
				for m := range ch {
					got[s] = append(got[s], m)
					m.Ack()
				}
			}()
		}
		runRouterLike(fo.Run, fo.Running)
		src.Open()
		vs.Quiesce()
		if src.Subscribed["t"] != 1 {
			vs.Fail("fanout-single-source-subscription", "source subscribed %d times", src.Subscribed["t"])
		}
		for s := 0; s < subs; s++ {
			if len(got[s]) != n {
				vs.Fail("relay", "fan-out subscription %d received %d of %d messages", s, len(got[s]), n)
				continue
			}
			for i, m := range got[s] {
				if !hx.SameContent(m, script[i]) {
					vs.Fail("relay-content", "fan-out subscription %d: message %d arrived as %q %v", s, i, m.UUID, m.Metadata)
				}
			}
		}
		for _, d := range src.Snapshot() {
			if !d.Acked() {
				vs.Fail("settlement", "fan-out: source message %s not acked although every subscription got it", d.UUID)
			}
		}
		vs.Note("ok")
	}}
}

// FanOut over two topics with one message each in flight at the same time: each topic's subscribers get
// their own topic's message, intact, and nothing else.
func fanOutTwoTopicsScenario(c int) *explore.Scenario {
	return &explore.Scenario{Name: fmt.Sprintf("fanout/two-topics/c%d", c), C: c, Opts: vs.Options{MaxSteps: 60000}, Body: func() {
		topics := []string{"ta", "tb"}
		script := map[string][]*message.Message{}
		origs := map[string]*message.Message{}
		for i, t := range topics {
			m := alphabetMsg(1+i, "u-"+t)
			script[t] = []*message.Message{m}
			origs[t] = m
		}
		src := hx.NewScriptSub("in", script)
		src.Gate = make(chan struct{})
		fo, err := gochannel.NewFanOut(src, nil)
		if err != nil {
			vs.Fail("setup", "%v", err)
			return
		}
		got := map[string][]*message.Message{}
		for _, t := range topics {
			t := t
			fo.AddSubscription(t)
			ch, err := fo.Subscribe(context.Background(), t)
			if err != nil {
				vs.Fail("subscribe-error", "%v", err)
				return
			}
			go func() {
				for m := range ch {
					got[t] = append(got[t], m)
					m.Ack()
				}
			}()
		}
		runRouterLike(fo.Run, fo.Running)
		src.Open()
		vs.Quiesce()
		for _, t := range topics {
			if len(got[t]) != 1 || !hx.SameContent(got[t][0], origs[t]) {
				desc := ""
				for _, m := range got[t] {
					desc += m.UUID + " "
				}
				vs.Fail("relay", "fan-out over two topics: subscribers of %q received [%s], expected exactly %s intact", t, desc, origs[t].UUID)
			}
		}
		for _, d := range src.Snapshot() {
			if !d.Acked() {
				vs.Fail("settlement", "fan-out: source message %s not acked", d.UUID)
			}
		}
		vs.Note("ok")
	}}
}

func init() {
	add := func(tier reg.Tier, w int, mk func(t reg.Tier) *explore.Scenario) {
		reg.AddW("C17", mk(reg.Quick).Name, tier, w, mk)
	}
	add(reg.Quick, 30, func(t reg.Tier) *explore.Scenario {
		if t == reg.Thorough {
			return fanOutTwoTopicsScenario(2)
		}
		return fanOutTwoTopicsScenario(1)
	})
	add(reg.Quick, 1, func(t reg.Tier) *explore.Scenario { return forwarderPublisherScenario() })
	for _, ack := range []bool{false, true} {
		ack := ack
		add(reg.Quick, 5, func(t reg.Tier) *explore.Scenario {
			if t == reg.Thorough {
				return forwarderScenario(ack, 3, 2, -1)
			}
			return forwarderScenario(ack, 2, 2, -1)
		})
		add(reg.Quick, 10, func(t reg.Tier) *explore.Scenario { return forwarderScenario(ack, 1, 1, 0) })
	}
	for _, topics := range []int{1, 2} {
		topics := topics
		add(reg.Quick, 5, func(t reg.Tier) *explore.Scenario {
			if t == reg.Thorough {
				return fanInScenario(topics, 2, 2, -1)
			}
			return fanInScenario(topics, 1, 2, -1)
		})
	}
	add(reg.Quick, 10, func(t reg.Tier) *explore.Scenario { return fanInScenario(1, 1, 1, 0) })
	for _, fm := range []bool{false, true} {
		for _, d := range []time.Duration{0, 5 * time.Second} {
			fm, d := fm, d
			add(reg.Quick, 5, func(t reg.Tier) *explore.Scenario {
				if t == reg.Thorough {
					return requeuerScenario(fm, d, 3, 2, -1)
				}
				return requeuerScenario(fm, d, 2, 2, -1)
			})
		}
	}
	add(reg.Quick, 10, func(t reg.Tier) *explore.Scenario { return requeuerScenario(true, 0, 1, 1, 0) })
	add(reg.Quick, 10, func(t reg.Tier) *explore.Scenario {
		if t == reg.Thorough {
			return requeuerStopScenario(4*time.Second, 1)
		}
		return requeuerStopScenario(4*time.Second, 0)
	})
	add(reg.Quick, 5, func(t reg.Tier) *explore.Scenario { return requeuerStopScenario(0, 0) })
	for _, s := range []int{1, 2} {
		s := s
		add(reg.Quick, 5, func(t reg.Tier) *explore.Scenario {
			if t == reg.Thorough {
				return fanOutScenario(s, 3, -1)
			}
			return fanOutScenario(s, 2, -1)
		})
	}
	add(reg.Thorough, 30, func(t reg.Tier) *explore.Scenario { return fanOutScenario(1, 1, 0) })
}
