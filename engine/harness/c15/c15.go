// Package c15: CQRS buses and processors dispatch by type name with the configured ack policy.
package c15

import (
	"context"
	"encoding/json"
	stderrors "errors"
	"fmt"
	"reflect"
	"strings"

	"github.com/ThreeDotsLabs/watermill/components/cqrs"
	"github.com/ThreeDotsLabs/watermill/message"
	"google.golang.org/protobuf/proto"
	"google.golang.org/protobuf/types/known/wrapperspb"

	"verif/explore"
	"verif/harness/hx"
	"verif/harness/reg"
	"verif/vs"
)

type A struct {
	X int               `json:"x"`
	S string            `json:"s,omitempty"`
	M map[string]string `json:"m,omitempty"`
}
type B struct {
	Y string `json:"y"`
}
type C struct {
	Z []int `json:"z"`
}
type D struct { // never registered
	W bool `json:"w"`
}

func (C) Name() string { return "custom-c-name" }

var errBad = stderrors.New("handler rejects this value")

var generators = []struct {
	name string
	fn   func(v interface{}) string
}{
	{"fully-qualified", nil},
	{"struct-name", cqrs.StructName},
	{"named-struct", cqrs.NamedStruct(cqrs.StructName)},
}

func jsonM(gen int) cqrs.JSONMarshaler { return cqrs.JSONMarshaler{GenerateName: generators[gen].fn} }

// values of the family
func valuesOf(t string) []any {
	switch t {
	case "A":
		return []any{&A{X: 7, S: "é\"\n", M: map[string]string{"k": "v"}}, &A{}, &A{X: -1, S: "bad"}}
	case "B":
		return []any{&B{Y: ""}, &B{Y: "bad"}}
	case "C":
		return []any{&C{}, &C{Z: []int{1, 2}}}
	}
	return []any{&D{W: true}}
}

func isBad(v any) bool {
	switch x := v.(type) {
	case *A:
		return x.S == "bad"
	case *B:
		return x.Y == "bad"
	}
	return false
}

// ---- buses -------------------------------------------------------------------------------------------------

// U cannot be serialised.
type U struct {
	Ch chan int `json:"ch"`
}

var busFaults = []string{"none", "value cannot be marshaled", "topic generator fails", "publisher fails", "OnSend/OnPublish hook fails"}

// A bus either publishes the message once and reports success, or reports the error: it never reports success
// without having published, and never publishes what it reports as failed to prepare.
func busFaultScenario() *explore.Scenario {
	return &explore.Scenario{Name: "bus/faults", C: -1, DataOnly: true, Body: func() {
		kind := vs.Choose(2, 0, "bus kind")
		fault := busFaults[vs.Choose(len(busFaults), 0, "fault")]
		m := jsonM(1)
		pub := hx.NewScriptPub("bus")
		if fault == "publisher fails" {
			pub.Outcome = func(int, string, []*message.Message) hx.PubOutcome { return hx.PubErr }
		}
		var v any = &B{Y: "x"}
		if fault == "value cannot be marshaled" {
			v = &U{Ch: make(chan int)}
		}
		topicErr := func() error {
			if fault == "topic generator fails" {
				return stderrors.New("no topic")
			}
			return nil
		}
		hookErr := func() error {
			if fault == "OnSend/OnPublish hook fails" {
				return stderrors.New("hook says no")
			}
			return nil
		}
		var err error
		if kind == 0 {
			bus, e := cqrs.NewCommandBusWithConfig(pub, cqrs.CommandBusConfig{
				GeneratePublishTopic: func(p cqrs.CommandBusGeneratePublishTopicParams) (string, error) { return "topic", topicErr() },
				OnSend:               func(cqrs.CommandBusOnSendParams) error { return hookErr() },
				Marshaler:            m,
			})
			if e != nil {
				vs.Fail("setup", "%v", e)
				return
			}
			err = bus.Send(context.Background(), v)
		} else {
			bus, e := cqrs.NewEventBusWithConfig(pub, cqrs.EventBusConfig{
				GeneratePublishTopic: func(p cqrs.GenerateEventPublishTopicParams) (string, error) { return "topic", topicErr() },
				OnPublish:            func(cqrs.OnEventSendParams) error { return hookErr() },
				Marshaler:            m,
			})
			if e != nil {
				vs.Fail("setup", "%v", e)
				return
			}
			err = bus.Publish(context.Background(), v)
		}
		cfg := fmt.Sprintf("kind=%d fault=%q", kind, fault)
		accepted := 0
		for _, c := range pub.Snapshot() {
			if c.Outcome == hx.PubOK {
				accepted += len(c.Msgs)
			}
		}
		switch {
		case fault == "none" && (err != nil || accepted != 1):
			vs.Fail("published-once", "%s: returned %v, %d messages accepted by the publisher", cfg, err, accepted)
		case fault != "none" && err == nil:
			vs.Fail("published-once", "%s: the bus reported success although the message was not published (%d accepted)", cfg, accepted)
		case fault != "none" && accepted != 0:
			vs.Fail("published-once", "%s: the bus reported %v but the publisher accepted %d messages", cfg, err, accepted)
		}
		vs.Note("%s err=%v accepted=%d", cfg, err != nil, accepted)
	}}
}

func busScenario() *explore.Scenario {
	return &explore.Scenario{Name: "bus", C: -1, DataOnly: true, Body: func() {
		gen := vs.Choose(len(generators), 0, "name generator")
		kind := vs.Choose(2, 0, "bus kind")
		t := []string{"A", "B", "C"}[vs.Choose(3, 0, "type")]
		vals := valuesOf(t)
		v := vals[vs.Choose(len(vals), 0, "value")]
		m := jsonM(gen)
		pub := hx.NewScriptPub("bus")
		topicOf := func(name string) string { return "topic_" + name }
		var err error
		if kind == 0 {
			bus, e := cqrs.NewCommandBusWithConfig(pub, cqrs.CommandBusConfig{
				GeneratePublishTopic: func(p cqrs.CommandBusGeneratePublishTopicParams) (string, error) { return topicOf(p.CommandName), nil },
				Marshaler:            m,
			})
			if e != nil {
				vs.Fail("setup", "%v", e)
				return
			}
			err = bus.Send(context.Background(), v)
		} else {
			bus, e := cqrs.NewEventBusWithConfig(pub, cqrs.EventBusConfig{
				GeneratePublishTopic: func(p cqrs.GenerateEventPublishTopicParams) (string, error) { return topicOf(p.EventName), nil },
				Marshaler:            m,
			})
			if e != nil {
				vs.Fail("setup", "%v", e)
				return
			}
			err = bus.Publish(context.Background(), v)
		}
		cfg := fmt.Sprintf("kind=%d generator=%s value=%#v", kind, generators[gen].name, v)
		if err != nil {
			vs.Fail("bus-error", "%s: %v", cfg, err)
			return
		}
		calls := pub.Snapshot()
		if len(calls) != 1 || len(calls[0].Msgs) != 1 {
			vs.Fail("published-once", "%s: %d publish calls", cfg, len(calls))
			return
		}
		name := m.Name(v)
		if calls[0].Topic != topicOf(name) {
			vs.Fail("bus-topic", "%s: published on %q, configured topic %q", cfg, calls[0].Topic, topicOf(name))
		}
		msg := calls[0].Msgs[0]
		if m.NameFromMessage(msg) != name {
			vs.Fail("carries-type-name", "%s: message carries name %q, expected %q", cfg, m.NameFromMessage(msg), name)
		}
		back := reflect.New(reflect.TypeOf(v).Elem()).Interface()
		if err := m.Unmarshal(msg, back); err != nil || !reflect.DeepEqual(normalize(back), normalize(v)) {
			vs.Fail("carries-value", "%s: payload %q does not unmarshal to the value sent (%v)", cfg, msg.Payload, err)
		}
		vs.Note("%s -> %s", cfg, calls[0].Topic)
	}}
}

func normalize(v any) string { b, _ := json.Marshal(v); return string(b) }

// ---- processors --------------------------------------------------------------------------------------------

type inv struct {
	handler string
	value   string
	origOK  bool
}

// stream element kinds: known type (value index), unknown type D, foreign message without name, malformed payload with a known name
func streamMsg(m cqrs.JSONMarshaler, k int, i int) (*message.Message, string, any) {
	types := []string{"A", "B", "C"}
	switch {
	case k < 7:
		all := []any{}
		for _, t := range types {
			all = append(all, valuesOf(t)...)
		}
		v := all[k]
		msg, err := m.Marshal(v)
		if err != nil {
			panic(err)
		}
		msg.UUID = fmt.Sprintf("s%d", i)
		return msg, strings.TrimPrefix(fmt.Sprintf("%T", v), "*c15."), v
	case k == 7:
		msg, _ := m.Marshal(&D{W: true})
		msg.UUID = fmt.Sprintf("s%d", i)
		return msg, "D", nil
	case k == 8:
		return message.NewMessage(fmt.Sprintf("s%d", i), []byte("{}")), "foreign", nil
	case k == 9:
		msg, _ := m.Marshal(&A{})
		msg.UUID = fmt.Sprintf("s%d", i)
		msg.Payload = []byte("{not json")
		return msg, "A-malformed", nil
	default:
		// a complete value followed by something else is not the serialisation of any value either
		msg, _ := m.Marshal(&A{X: 7})
		msg.UUID = fmt.Sprintf("s%d", i)
		msg.Payload = append(msg.Payload, []byte(`{"x":8}`)...)
		return msg, "A-malformed", nil
	}
}

const nStream = 11

// The ack flags have one documented role each (AckCommandHandlingErrors: what happens to a *handler error*;
// AckOnUnknownEvent: what happens to a message *no handler is registered for*). A message of a registered type
// whose payload cannot be decoded is neither: however a processor settles it, the flag must not change that.
func malformedFlagScenario() *explore.Scenario {
	return &explore.Scenario{Name: "processor/malformed-payload-settlement-independent-of-flags", C: -1, DataOnly: true, Body: func() {
		kind := []string{"command", "event", "group"}[vs.Choose(3, 0, "processor kind")]
		m := jsonM(vs.Choose(len(generators), 0, "name generator"))
		handled := 0
		settled := map[bool]string{}
		for _, flag := range []bool{false, true} {
			bad, _, _ := streamMsg(m, 9, 0)
			good, _, _ := streamMsg(m, 1, 1) // &A{}
			sub := hx.NewScriptSub("s", map[string][]*message.Message{"topic": {bad, good}})
			r, _ := message.NewRouter(message.RouterConfig{}, nil)
			var err error
			switch kind {
			case "command":
				var p *cqrs.CommandProcessor
				p, err = cqrs.NewCommandProcessorWithConfig(r, cqrs.CommandProcessorConfig{
					GenerateSubscribeTopic:   func(cqrs.CommandProcessorGenerateSubscribeTopicParams) (string, error) { return "topic", nil },
					SubscriberConstructor:    func(cqrs.CommandProcessorSubscriberConstructorParams) (message.Subscriber, error) { return sub, nil },
					Marshaler:                m,
					AckCommandHandlingErrors: flag,
				})
				if err == nil {
					err = p.AddHandlers(cqrs.NewCommandHandler("h", func(ctx context.Context, v *A) error { handled++; return nil }))
				}
			case "event":
				var p *cqrs.EventProcessor
				p, err = cqrs.NewEventProcessorWithConfig(r, cqrs.EventProcessorConfig{
					GenerateSubscribeTopic: func(cqrs.EventProcessorGenerateSubscribeTopicParams) (string, error) { return "topic", nil },
					SubscriberConstructor:  func(cqrs.EventProcessorSubscriberConstructorParams) (message.Subscriber, error) { return sub, nil },
					Marshaler:              m,
					AckOnUnknownEvent:      flag,
				})
				if err == nil {
					err = p.AddHandlers(cqrs.NewEventHandler("h", func(ctx context.Context, v *A) error { handled++; return nil }))
				}
			default:
				var p *cqrs.EventGroupProcessor
				p, err = cqrs.NewEventGroupProcessorWithConfig(r, cqrs.EventGroupProcessorConfig{
					GenerateSubscribeTopic: func(cqrs.EventGroupProcessorGenerateSubscribeTopicParams) (string, error) { return "topic", nil },
					SubscriberConstructor:  func(cqrs.EventGroupProcessorSubscriberConstructorParams) (message.Subscriber, error) { return sub, nil },
					Marshaler:              m,
					AckOnUnknownEvent:      flag,
				})
				if err == nil {
					err = p.AddHandlersGroup("g", cqrs.NewGroupEventHandler(func(ctx context.Context, v *A) error { handled++; return nil }))
				}
			}
			if err != nil {
				vs.Fail("setup", "%v", err)
				return
			}
			go func() {
				if err := r.Run(context.Background()); err != nil {
					vs.Fail("run-result", "%v", err)
				}
			}()
			<-r.Running()
			vs.Quiesce()
			ds := sub.Snapshot()
			if len(ds) == 0 {
				vs.Fail("intake", "nothing delivered")
				return
			}
			settled[flag] = hx.SettlementOf(ds[0].Msg)
			r.Close()
			vs.Quiesce()
		}
		if settled[false] != settled[true] {
			vs.Fail("ack-policy", "%s processor: a message of a registered type with an undecodable payload is %s with the ack flag off and %s with it on (the flag is about handler errors / unregistered types only)", kind, settled[false], settled[true])
		}
		vs.Note("%s: %s", kind, settled[false])
	}}
}

func processorScenario(kind string, n int, c int) *explore.Scenario {
	name := fmt.Sprintf("processor/%s/stream%d", kind, n)
	if c >= 0 {
		name += fmt.Sprintf("/c%d", c)
	}
	return &explore.Scenario{Name: name, C: c, DataOnly: c < 0, Body: func() {
		gen := vs.Choose(len(generators), 0, "name generator")
		m := jsonM(gen)
		flag := vs.Choose(2, 0, "ack flag") == 1 // AckCommandHandlingErrors / AckOnUnknownEvent
		// registry: ordered list of handler types, size 1..3 (group: a type may repeat)
		regSize := 1 + vs.Choose(3, 0, "registry size")
		var registry []string
		for i := 0; i < regSize; i++ {
			for {
				t := []string{"A", "B", "C"}[vs.Choose(3, 0, "handler type")]
				dup := false
				for _, r := range registry {
					dup = dup || r == t
				}
				if kind != "group" && dup {
					// single processors take one handler per type: skip duplicates deterministically
					t = ""
					for _, cand := range []string{"A", "B", "C"} {
						used := false
						for _, r := range registry {
							used = used || r == cand
						}
						if !used {
							t = cand
							break
						}
					}
				}
				registry = append(registry, t)
				break
			}
		}
		// the documented pass-through OnHandle hook may be configured: it calls the handler and returns its result, so
		// nothing else changes (dispatch, context, ack policy)
		hook := vs.Choose(2, 0, "OnHandle hook configured") == 1
		hooked := 0
		// group: one of the handlers may fail for every event it is given, whatever the others do with the same event
		failing := ""
		if kind == "group" {
			if i := vs.Choose(regSize+1, 0, "handler that always fails"); i > 0 {
				failing = fmt.Sprintf("h%d%s", i-1, registry[i-1])
			}
		}
		// stream
		type elem struct {
			msg  *message.Message
			kind string
			val  any
		}
		var stream []elem
		var script []*message.Message
		for i := 0; i < n; i++ {
			msg, k, v := streamMsg(m, vs.Choose(nStream, 0, "stream element"), i)
			stream = append(stream, elem{msg, k, v})
			script = append(script, msg)
		}
		var invs []inv
		subs := map[string]*hx.ScriptSub{}
		// the transport may deliver messages whose context already carries values, among them the "original
		// message" of whoever published them (a context-preserving Pub/Sub, the forwarder): the handler must
		// still see the message it is handling
		foreignCtx := vs.Choose(2, 0, "delivered context already carries another original message") == 1
		foreign := message.NewMessage("foreign-original", []byte("{}"))
		mkSub := func(key string) *hx.ScriptSub {
			s := hx.NewScriptSub(key, map[string][]*message.Message{"topic": script})
			if foreignCtx {
				s.CtxFor = func(ctx context.Context, m *message.Message) context.Context {
					return cqrs.CtxWithOriginalMessage(ctx, foreign)
				}
			}
			subs[key] = s
			return s
		}
		record := func(handler string, ctx context.Context, v any) error {
			orig := cqrs.OriginalMessageFromCtx(ctx)
			ok := false
			if orig != nil {
				for _, s := range subs {
					for _, d := range s.Deliveries {
						ok = ok || d.Msg == orig
					}
				}
			}
			invs = append(invs, inv{handler, normalize(v), ok})
			if isBad(v) || handler == failing {
				return errBad
			}
			return nil
		}
		r, _ := message.NewRouter(message.RouterConfig{}, nil)
		var setupErr error
		switch kind {
		case "command":
			p, err := cqrs.NewCommandProcessorWithConfig(r, cqrs.CommandProcessorConfig{
				GenerateSubscribeTopic: func(cqrs.CommandProcessorGenerateSubscribeTopicParams) (string, error) { return "topic", nil },
				SubscriberConstructor: func(p cqrs.CommandProcessorSubscriberConstructorParams) (message.Subscriber, error) {
					return mkSub(p.HandlerName), nil
				},
				Marshaler:                m,
				AckCommandHandlingErrors: flag,
				OnHandle: map[bool]cqrs.CommandProcessorOnHandleFn{true: func(p cqrs.CommandProcessorOnHandleParams) error {
					hooked++
					return p.Handler.Handle(p.Message.Context(), p.Command)
				}}[hook],
			})
			setupErr = err
			for i, t := range registry {
				hn := fmt.Sprintf("h%d%s", i, t)
				switch t {
				case "A":
					setupErr = stderrors.Join(setupErr, p.AddHandlers(cqrs.NewCommandHandler(hn, func(ctx context.Context, v *A) error { return record(hn, ctx, v) })))
				case "B":
					setupErr = stderrors.Join(setupErr, p.AddHandlers(cqrs.NewCommandHandler(hn, func(ctx context.Context, v *B) error { return record(hn, ctx, v) })))
				case "C":
					setupErr = stderrors.Join(setupErr, p.AddHandlers(cqrs.NewCommandHandler(hn, func(ctx context.Context, v *C) error { return record(hn, ctx, v) })))
				}
			}
		case "event":
			p, err := cqrs.NewEventProcessorWithConfig(r, cqrs.EventProcessorConfig{
				GenerateSubscribeTopic: func(cqrs.EventProcessorGenerateSubscribeTopicParams) (string, error) { return "topic", nil },
				SubscriberConstructor: func(p cqrs.EventProcessorSubscriberConstructorParams) (message.Subscriber, error) {
					return mkSub(p.HandlerName), nil
				},
				Marshaler:         m,
				AckOnUnknownEvent: flag,
				OnHandle: map[bool]cqrs.EventProcessorOnHandleFn{true: func(p cqrs.EventProcessorOnHandleParams) error {
					hooked++
					return p.Handler.Handle(p.Message.Context(), p.Event)
				}}[hook],
			})
			setupErr = err
			for i, t := range registry {
				hn := fmt.Sprintf("h%d%s", i, t)
				switch t {
				case "A":
					setupErr = stderrors.Join(setupErr, p.AddHandlers(cqrs.NewEventHandler(hn, func(ctx context.Context, v *A) error { return record(hn, ctx, v) })))
				case "B":
					setupErr = stderrors.Join(setupErr, p.AddHandlers(cqrs.NewEventHandler(hn, func(ctx context.Context, v *B) error { return record(hn, ctx, v) })))
				case "C":
					setupErr = stderrors.Join(setupErr, p.AddHandlers(cqrs.NewEventHandler(hn, func(ctx context.Context, v *C) error { return record(hn, ctx, v) })))
				}
			}
		case "group":
			p, err := cqrs.NewEventGroupProcessorWithConfig(r, cqrs.EventGroupProcessorConfig{
				GenerateSubscribeTopic: func(cqrs.EventGroupProcessorGenerateSubscribeTopicParams) (string, error) { return "topic", nil },
				SubscriberConstructor: func(p cqrs.EventGroupProcessorSubscriberConstructorParams) (message.Subscriber, error) {
					return mkSub("group"), nil
				},
				Marshaler:         m,
				AckOnUnknownEvent: flag,
				OnHandle: map[bool]cqrs.EventGroupProcessorOnHandleFn{true: func(p cqrs.EventGroupProcessorOnHandleParams) error {
					hooked++
					return p.Handler.Handle(p.Message.Context(), p.Event)
				}}[hook],
			})
			setupErr = err
			var hs []cqrs.GroupEventHandler
			for i, t := range registry {
				hn := fmt.Sprintf("h%d%s", i, t)
				switch t {
				case "A":
					hs = append(hs, cqrs.NewGroupEventHandler(func(ctx context.Context, v *A) error { return record(hn, ctx, v) }))
				case "B":
					hs = append(hs, cqrs.NewGroupEventHandler(func(ctx context.Context, v *B) error { return record(hn, ctx, v) }))
				case "C":
					hs = append(hs, cqrs.NewGroupEventHandler(func(ctx context.Context, v *C) error { return record(hn, ctx, v) }))
				}
			}
			setupErr = stderrors.Join(setupErr, p.AddHandlersGroup("group", hs...))
		}
		if setupErr != nil {
			vs.Fail("setup", "%v", setupErr)
			return
		}
		go func() {
			if err := r.Run(context.Background()); err != nil {
				vs.Fail("run-result", "%v", err)
			}
		}()
		<-r.Running()
		vs.Quiesce()

		cfg := fmt.Sprintf("kind=%s generator=%s flag=%v OnHandle=%v registry=%v failing=%q stream=", kind, generators[gen].name, flag, hook, registry, failing)
		for _, e := range stream {
			cfg += e.kind + ":" + normalize(e.val) + " "
		}
		// expected invocations and settlements
		var wantInv []string
		expectSettle := map[string]string{} // subscription key + uuid -> acked|nacked|any
		keys := []string{}
		if kind == "group" {
			keys = []string{"group"}
		} else {
			for i, t := range registry {
				keys = append(keys, fmt.Sprintf("h%d%s", i, t))
			}
		}
		for _, key := range keys {
			for _, e := range stream {
				var hs []string // handlers of this subscription, in order
				if kind == "group" {
					for i, t := range registry {
						hs = append(hs, fmt.Sprintf("h%d%s", i, t))
					}
				} else {
					hs = []string{key}
				}
				matched, failed := false, false
				for _, h := range hs {
					ht := h[len(h)-1:]
					if e.val != nil && ht == e.kind {
						matched = true
						wantInv = append(wantInv, h+"<-"+normalize(e.val))
						if isBad(e.val) || h == failing {
							failed = true
							break // group: stop at the first error
						}
					}
				}
				st := "acked"
				switch {
				case e.kind == "A-malformed":
					// the name says "A" but no A can be rebuilt from the payload: no handler can be given "a value
					// equal to the one sent", so the message was not handled and must not be acknowledged (when a
					// handler for A is registered here; otherwise it is a message of another type, see below)
					st = "nacked"
				case matched && failed:
					st = "nacked"
					if kind == "command" && flag {
						st = "acked"
					}
				case matched:
					st = "acked"
				default: // other type / unknown / foreign
					if kind == "command" || flag {
						st = "acked"
					} else {
						st = "nacked"
					}
				}
				if e.kind == "A-malformed" {
					hasA := false
					for _, h := range hs {
						hasA = hasA || h[len(h)-1:] == "A"
					}
					if !hasA {
						st = "acked"
						if kind != "command" && !flag {
							st = "nacked"
						}
					}
				}
				expectSettle[key+"/"+e.msg.UUID] = st
			}
		}
		if hook && hooked != len(invs) {
			vs.Fail("on-handle-hook", "%s: the OnHandle hook ran %d times for %d handler invocations", cfg, hooked, len(invs))
		}
		var gotInv []string
		for _, iv := range invs {
			gotInv = append(gotInv, iv.handler+"<-"+iv.value)
			if !iv.origOK {
				vs.Fail("original-message-in-context", "%s: handler %s did not find the delivered message in its context", cfg, iv.handler)
			}
		}
		if kind == "group" {
			// within the group order matters
			if strings.Join(gotInv, " ") != strings.Join(wantInv, " ") {
				vs.Fail("dispatch-by-type", "%s: invocations [%s], expected [%s]", cfg, strings.Join(gotInv, " "), strings.Join(wantInv, " "))
			}
		} else if !hx.MultisetEq(gotInv, wantInv) {
			vs.Fail("dispatch-by-type", "%s: invocations [%s], expected [%s]", cfg, strings.Join(gotInv, " "), strings.Join(wantInv, " "))
		}
		for key, s := range subs {
			for _, d := range s.Snapshot() {
				want := expectSettle[key+"/"+d.UUID]
				got := hx.SettlementOf(d.Msg)
				if want != "any" && got != want {
					vs.Fail("ack-policy", "%s: subscription %s message %s is %s, expected %s", cfg, key, d.UUID, got, want)
				}
				if got == "unsettled" {
					vs.Fail("ack-policy", "%s: subscription %s message %s unsettled", cfg, key, d.UUID)
				}
			}
			if len(s.Snapshot()) != len(stream) {
				vs.Fail("intake", "%s: subscription %s handed out %d of %d messages", cfg, key, len(s.Snapshot()), len(stream))
			}
		}
		vs.Note("%s", cfg)
	}}
}

// protobuf marshalers: round trip through bus and processor with wrapper types
func protoScenario() *explore.Scenario {
	return &explore.Scenario{Name: "protobuf", C: -1, DataOnly: true, Body: func() {
		var m cqrs.CommandEventMarshaler
		which := vs.Choose(2, 0, "marshaler")
		gen := generators[vs.Choose(len(generators), 0, "name generator")].fn
		if which == 0 {
			m = cqrs.ProtoMarshaler{GenerateName: gen}
		} else {
			m = cqrs.ProtobufMarshaler{GenerateName: gen}
		}
		vals := []proto.Message{wrapperspb.String(""), wrapperspb.String("é\x00\""), wrapperspb.Int64(-5), wrapperspb.Bool(true)}
		v := vals[vs.Choose(len(vals), 0, "value")]
		pub := hx.NewScriptPub("bus")
		bus, err := cqrs.NewEventBusWithConfig(pub, cqrs.EventBusConfig{
			GeneratePublishTopic: func(p cqrs.GenerateEventPublishTopicParams) (string, error) { return "t_" + p.EventName, nil },
			Marshaler:            m,
		})
		if err != nil {
			vs.Fail("setup", "%v", err)
			return
		}
		if err := bus.Publish(context.Background(), v); err != nil {
			vs.Fail("bus-error", "%v", err)
			return
		}
		calls := pub.Snapshot()
		if len(calls) != 1 || calls[0].Topic != "t_"+m.Name(v) {
			vs.Fail("bus-topic", "published %d times, topic %v", len(calls), calls)
			return
		}
		msg := calls[0].Msgs[0]
		// processor side
		sub := hx.NewScriptSub("s", map[string][]*message.Message{"topic": {msg, mustMarshal(m, wrapperspb.Double(1.5))}})
		r, _ := message.NewRouter(message.RouterConfig{}, nil)
		p, err := cqrs.NewEventProcessorWithConfig(r, cqrs.EventProcessorConfig{
			GenerateSubscribeTopic: func(cqrs.EventProcessorGenerateSubscribeTopicParams) (string, error) { return "topic", nil },
			SubscriberConstructor:  func(cqrs.EventProcessorSubscriberConstructorParams) (message.Subscriber, error) { return sub, nil },
			Marshaler:              m, AckOnUnknownEvent: true,
		})
		if err != nil {
			vs.Fail("setup", "%v", err)
			return
		}
		var got []proto.Message
		switch v.(type) {
		case *wrapperspb.StringValue:
			err = p.AddHandlers(cqrs.NewEventHandler("h", func(ctx context.Context, e *wrapperspb.StringValue) error { got = append(got, e); return nil }))
		case *wrapperspb.Int64Value:
			err = p.AddHandlers(cqrs.NewEventHandler("h", func(ctx context.Context, e *wrapperspb.Int64Value) error { got = append(got, e); return nil }))
		case *wrapperspb.BoolValue:
			err = p.AddHandlers(cqrs.NewEventHandler("h", func(ctx context.Context, e *wrapperspb.BoolValue) error { got = append(got, e); return nil }))
		}
		if err != nil {
			vs.Fail("setup", "%v", err)
			return
		}
		go func() { r.Run(context.Background()) }()
		<-r.Running()
		vs.Quiesce()
		if len(got) != 1 || !proto.Equal(got[0], v) {
			vs.Fail("dispatch-by-type", "marshaler %d value %v: handler received %v", which, v, got)
		}
		for _, d := range sub.Snapshot() {
			if !d.Acked() {
				vs.Fail("ack-policy", "marshaler %d: message %s not acked", which, d.UUID)
			}
		}
		vs.Note("marshaler=%d %v", which, v)
	}}
}

func mustMarshal(m cqrs.CommandEventMarshaler, v any) *message.Message {
	msg, err := m.Marshal(v)
	if err != nil {
		panic(err)
	}
	return msg
}

func init() {
	add := func(tier reg.Tier, w int, mk func(t reg.Tier) *explore.Scenario) {
		reg.AddW("C15", mk(reg.Quick).Name, tier, w, mk)
	}
	add(reg.Quick, 1, func(t reg.Tier) *explore.Scenario { return busScenario() })
	add(reg.Quick, 1, func(t reg.Tier) *explore.Scenario { return busFaultScenario() })
	add(reg.Quick, 1, func(t reg.Tier) *explore.Scenario { return malformedFlagScenario() })
	add(reg.Quick, 1, func(t reg.Tier) *explore.Scenario { return protoScenario() })
	for _, k := range []string{"command", "event", "group"} {
		k := k
		add(reg.Quick, 10, func(t reg.Tier) *explore.Scenario { return processorScenario(k, 1, -1) })
		add(reg.Quick, 30, func(t reg.Tier) *explore.Scenario { return processorScenario(k, 2, -1) })
		add(reg.Thorough, 60, func(t reg.Tier) *explore.Scenario { return processorScenario(k, 3, -1) })
		tier := reg.Thorough
		if k == "group" {
			tier = reg.Quick
		}
		add(tier, 60, func(t reg.Tier) *explore.Scenario { return processorScenario(k, 1, 0) })
	}
}
