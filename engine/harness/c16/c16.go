// Package c16: value semantics — Copy/Equals laws and codec round-trips are identities.
package c16

import (
	stderrors "errors"
	"fmt"
	"reflect"

	"github.com/ThreeDotsLabs/watermill/components/cqrs"
	"github.com/ThreeDotsLabs/watermill/components/forwarder"
	"github.com/ThreeDotsLabs/watermill/components/requestreply"
	"github.com/ThreeDotsLabs/watermill/message"
	gogotypes "github.com/gogo/protobuf/types"
	"google.golang.org/protobuf/proto"
	"google.golang.org/protobuf/types/known/structpb"
	"google.golang.org/protobuf/types/known/wrapperspb"

	"verif/explore"
	"verif/harness/reg"
	"verif/vs"
)

// (the last two: texts that are formatting directives when mistaken for a format string)
var sigma = []string{"", "a", "b", "\x00", "é", "\"", "\\", "\n", "�", "日本", "%", "100%d %s"}

var payloads = [][]byte{nil, {}, []byte("a"), {0x00, 0xff}, []byte("0123456789012345678901234567890123456789012345678901234567890123456789")}

// metadata maps with 0..2 entries over sigma x sigma; index space enumerated by the callers
func metas() []message.Metadata {
	out := []message.Metadata{{}}
	for _, k := range sigma {
		for _, v := range sigma {
			out = append(out, message.Metadata{k: v})
		}
	}
	for i, k1 := range sigma {
		for _, k2 := range sigma[i+1:] {
			for _, v1 := range []string{"", "a", "日本"} {
				for _, v2 := range []string{"", "b", "\x00"} {
					out = append(out, message.Metadata{k1: v1, k2: v2})
				}
			}
		}
	}
	return out
}

func build(uuid string, p []byte, md message.Metadata) *message.Message {
	m := message.NewMessage(uuid, p)
	for k, v := range md {
		m.Metadata[k] = v // as a transport or a map literal would fill it (Set is checked on its own below)
	}
	return m
}

// reference equality: UUID, payload bytes, metadata as a set of pairs
func refEquals(a, b *message.Message) bool {
	if a.UUID != b.UUID || string(a.Payload) != string(b.Payload) || len(a.Metadata) != len(b.Metadata) {
		return false
	}
	for k, v := range a.Metadata {
		w, ok := b.Metadata[k]
		if !ok || w != v {
			return false
		}
	}
	return true
}

func describe(m *message.Message) string {
	return fmt.Sprintf("{uuid %q payload %q metadata %q}", m.UUID, m.Payload, map[string]string(m.Metadata))
}

// copyEquals: Copy laws and Equals against the reference on every message and its one-component neighbours.
func copyEqualsScenario() *explore.Scenario {
	return &explore.Scenario{Name: "copy-equals", C: -1, DataOnly: true, Body: func() {
		ui := vs.Choose(len(sigma), 0, "uuid")
		pi := vs.Choose(len(payloads), 0, "payload")
		mds := metas()
		n, pairs := 0, 0
		for _, md := range mds {
			m := build(sigma[ui], payloads[pi], md)
			n++
			c := m.Copy()
			if !c.Equals(m) || !m.Equals(c) || !refEquals(c, m) {
				vs.Fail("copy-equals-original", "Copy() of %s does not Equal the original: %s", describe(m), describe(c))
			}
			// Set stores exactly the pair it is given (an empty value is a value)
			viaSet := message.NewMessage(sigma[ui], payloads[pi])
			for k, v := range md {
				viaSet.Metadata.Set(k, v)
				if got, ok := viaSet.Metadata[k]; !ok || got != v || viaSet.Metadata.Get(k) != v {
					vs.Fail("metadata-set", "Metadata.Set(%q, %q) stored (%q, present=%v)", k, v, got, ok)
				}
			}
			if !refEquals(viaSet, m) {
				vs.Fail("metadata-set", "metadata built with Set is %q, the pairs were %q", map[string]string(viaSet.Metadata), map[string]string(md))
			}
			c.Metadata.Set("new-key", "x")
			for k := range c.Metadata {
				c.Metadata[k] = "changed"
			}
			if !refEquals(m, build(sigma[ui], payloads[pi], md)) {
				vs.Fail("copy-owns-metadata", "changing the copy's metadata changed the original %s", describe(m))
			}
			// neighbours differing in exactly one component
			var nb []*message.Message
			for _, u := range sigma {
				nb = append(nb, build(u, payloads[pi], md))
			}
			for _, p := range payloads {
				nb = append(nb, build(sigma[ui], p, md))
			}
			for k, v := range md {
				for _, v2 := range []string{"", "a", "zz"} { // value changed
					x := build(sigma[ui], payloads[pi], md)
					x.Metadata[k] = v2
					nb = append(nb, x)
				}
				for _, k2 := range []string{"", "a", "other"} { // key changed, value kept
					x := build(sigma[ui], payloads[pi], md)
					delete(x.Metadata, k)
					x.Metadata[k2] = v
					nb = append(nb, x)
				}
				x := build(sigma[ui], payloads[pi], md) // entry removed
				delete(x.Metadata, k)
				nb = append(nb, x)
			}
			for _, k := range []string{"", "extra"} { // entry added
				x := build(sigma[ui], payloads[pi], md)
				x.Metadata[k] = ""
				nb = append(nb, x)
			}
			for _, o := range nb {
				pairs++
				want := refEquals(m, o)
				if got := m.Equals(o); got != want {
					vs.Fail("equals-exact", "%s .Equals %s = %v, the components say %v", describe(m), describe(o), got, want)
				}
				if got := o.Equals(m); got != want {
					vs.Fail("equals-exact", "%s .Equals %s = %v, the components say %v", describe(o), describe(m), got, want)
				}
			}
		}
		vs.Note("uuid=%q payload#%d messages=%d pairs=%d", sigma[ui], pi, n, pairs)
	}}
}

type jv struct {
	S string            `json:"s"`
	N int64             `json:"n"`
	M map[string]string `json:"m,omitempty"`
	L []string          `json:"l,omitempty"`
}

func (jv) unused() {}

// ju has untyped parts: what they hold comes back with the same dynamic types (numbers as float64, as
// encoding/json gives them; so the originals use float64).
type ju struct {
	Any  interface{}            `json:"any"`
	Map  map[string]interface{} `json:"map,omitempty"`
	List []interface{}          `json:"list,omitempty"`
}

type named struct{ S string }

func (named) Name() string { return "a-custom-name" }

func codecScenario() *explore.Scenario {
	return &explore.Scenario{Name: "codecs", C: -1, DataOnly: true, Body: func() {
		si := vs.Choose(len(sigma), 0, "string")
		s := sigma[si]
		n := 0
		// JSON marshaler, all name generators
		for _, gen := range []func(interface{}) string{nil, cqrs.StructName, cqrs.NamedStruct(cqrs.FullyQualifiedStructName)} {
			m := cqrs.JSONMarshaler{GenerateName: gen}
			for _, v := range []any{&jv{S: s}, &jv{S: s, N: -1 << 62, M: map[string]string{s: s}, L: []string{s, ""}}, &named{S: s},
				&ju{Any: 1.5, Map: map[string]interface{}{s: float64(len(s)), "nested": map[string]interface{}{"n": 12345678901.0, "s": s}}, List: []interface{}{s, 0.0, true, nil}},
				&ju{Any: s}} {
				n++
				msg, err := m.Marshal(v)
				if err != nil {
					vs.Fail("json-roundtrip", "Marshal(%#v): %v", v, err)
					continue
				}
				back := reflect.New(reflect.TypeOf(v).Elem()).Interface()
				if err := m.Unmarshal(msg, back); err != nil || !reflect.DeepEqual(back, v) {
					vs.Fail("json-roundtrip", "Unmarshal(Marshal(%#v)) = %#v, %v", v, back, err)
				}
				if m.NameFromMessage(msg) != m.Name(v) {
					vs.Fail("name-roundtrip", "NameFromMessage = %q, Name = %q", m.NameFromMessage(msg), m.Name(v))
				}
			}
		}
		// protobuf marshalers, all name generators; structpb values (oneof, map of messages) are what the legacy
		// gogo marshaler cannot encode itself and hands to its standard-protobuf fallback
		for _, gen := range []func(interface{}) string{nil, cqrs.StructName, cqrs.NamedStruct(cqrs.FullyQualifiedStructName)} {
			for _, m := range []cqrs.CommandEventMarshaler{cqrs.ProtoMarshaler{GenerateName: gen}, cqrs.ProtobufMarshaler{GenerateName: gen}} {
				for _, v := range []proto.Message{wrapperspb.String(s), wrapperspb.Bytes([]byte(s)), wrapperspb.Int64(int64(len(s)) - 3),
					structpb.NewStringValue(s), &structpb.Struct{Fields: map[string]*structpb.Value{s: structpb.NewStringValue(s), "n": structpb.NewNumberValue(1.5),
						"nested": structpb.NewStructValue(&structpb.Struct{Fields: map[string]*structpb.Value{"k": structpb.NewStringValue(s)}})}}} {
					n++
					msg, err := m.Marshal(v)
					if err != nil {
						vs.Fail("proto-roundtrip", "%T Marshal(%v): %v", m, v, err)
						continue
					}
					back := proto.Clone(v)
					proto.Reset(back)
					if err := m.Unmarshal(msg, back); err != nil || !proto.Equal(back, v) {
						vs.Fail("proto-roundtrip", "%T Unmarshal(Marshal(%v)) = %v, %v", m, v, back, err)
					}
					if m.NameFromMessage(msg) != m.Name(v) {
						vs.Fail("name-roundtrip", "%T (%T): NameFromMessage = %q, Name = %q", m, v, m.NameFromMessage(msg), m.Name(v))
					}
					// the round trip does not depend on the value's history: the same object, marshalled before, then changed
					// in a nested message (another encoded length), round-trips to its new content
					if st, ok := v.(*structpb.Struct); ok {
						st.Fields["n"] = structpb.NewStringValue("changed after the first Marshal: " + s + s)
						st.Fields["nested"].GetStructValue().Fields["added"] = structpb.NewStringValue("added after the first Marshal " + s)
						n++
						msg2, err := m.Marshal(st)
						if err != nil {
							vs.Fail("proto-roundtrip", "%T Marshal of a value that was marshalled before and changed since: %v", m, err)
							continue
						}
						back2 := &structpb.Struct{}
						if err := m.Unmarshal(msg2, back2); err != nil || !proto.Equal(back2, st) {
							vs.Fail("proto-roundtrip", "%T: a value marshalled before and changed since came back as %v, %v", m, back2, err)
						}
					}
				}
			}
		}
		// gogo types through ProtobufMarshaler (legacy fallback)
		{
			m := cqrs.ProtobufMarshaler{GenerateName: cqrs.StructName}
			v := &gogotypes.StringValue{Value: s}
			n++
			msg, err := m.Marshal(v)
			if err != nil {
				vs.Fail("proto-roundtrip", "gogo Marshal(%v): %v", v, err)
			} else {
				back := &gogotypes.StringValue{}
				if err := m.Unmarshal(msg, back); err != nil || back.Value != s {
					vs.Fail("proto-roundtrip", "gogo Unmarshal(Marshal(%q)) = %q, %v", s, back.Value, err)
				}
				if m.NameFromMessage(msg) != m.Name(v) {
					vs.Fail("name-roundtrip", "gogo NameFromMessage = %q, Name = %q", m.NameFromMessage(msg), m.Name(v))
				}
			}
		}
		// request-reply replies: result and error text
		rm := requestreply.BackendPubsubJSONMarshaler[jv]{}
		for _, errText := range append([]string{"<nil>"}, sigma...) {
			n++
			p := requestreply.BackendOnCommandProcessedParams[jv]{HandlerResult: jv{S: s, N: 5}}
			if errText != "<nil>" {
				p.HandleErr = stderrors.New(errText)
			}
			msg, err := rm.MarshalReply(p)
			if err != nil {
				vs.Fail("reply-roundtrip", "MarshalReply: %v", err)
				continue
			}
			rep, err := rm.UnmarshalReply(msg)
			if err != nil || !reflect.DeepEqual(rep.HandlerResult, p.HandlerResult) {
				vs.Fail("reply-roundtrip", "result %#v came back as %#v (%v)", p.HandlerResult, rep.HandlerResult, err)
			}
			if (rep.Error != nil) != (p.HandleErr != nil) || (rep.Error != nil && rep.Error.Error() != errText) {
				vs.Fail("reply-roundtrip", "error text %q came back as %v", errText, rep.Error)
			}
		}
		vs.Note("string %q: %d round trips", s, n)
	}}
}

func envelopeScenario() *explore.Scenario {
	return &explore.Scenario{Name: "forwarder-envelope", C: -1, DataOnly: true, Body: func() {
		ui := vs.Choose(len(sigma), 0, "uuid")
		ti := 1 + vs.Choose(len(sigma)-1, 0, "destination topic") // non-empty
		n := 0
		for _, p := range payloads {
			for _, md := range metas() {
				if len(md) == 2 && n%7 != 0 { // thin out the two-entry maps
					n++
					continue
				}
				n++
				orig := build(sigma[ui], p, md)
				env, err := forwarder.VerifWrap(sigma[ti], orig)
				if err != nil {
					vs.Fail("envelope-roundtrip", "wrap(%q, %s): %v", sigma[ti], describe(orig), err)
					continue
				}
				topic, back, err := forwarder.VerifUnwrap(env)
				if err != nil {
					vs.Fail("envelope-roundtrip", "unwrap(wrap(%q, %s)): %v", sigma[ti], describe(orig), err)
					continue
				}
				if topic != sigma[ti] {
					vs.Fail("envelope-roundtrip", "destination topic %q came back as %q", sigma[ti], topic)
				}
				if !refEquals(orig, back) {
					vs.Fail("envelope-roundtrip", "%s came back as %s", describe(orig), describe(back))
				}
				// an envelope stays what it is while others are made (a batch is wrapped message by message before
				// anything is published): wrap a second message of the same and of another size, then open the first
				for _, other := range []*message.Message{build("zz", p, md), build("a-much-longer-uuid-than-the-first", append([]byte("other "), p...), md)} {
					if _, err := forwarder.VerifWrap("elsewhere", other); err != nil {
						vs.Fail("envelope-roundtrip", "wrap: %v", err)
						continue
					}
					topic2, back2, err := forwarder.VerifUnwrap(env)
					if err != nil || topic2 != sigma[ti] || !refEquals(orig, back2) {
						vs.Fail("envelope-roundtrip", "after another message was wrapped, the envelope of %s opens as topic %q, %v (%v)", describe(orig), topic2, back2, err)
					}
				}
			}
		}
		vs.Note("uuid %q topic %q: %d messages", sigma[ui], sigma[ti], n)
	}}
}

func init() {
	reg.AddW("C16", "copy-equals", reg.Quick, 10, func(t reg.Tier) *explore.Scenario { return copyEqualsScenario() })
	reg.AddW("C16", "codecs", reg.Quick, 2, func(t reg.Tier) *explore.Scenario { return codecScenario() })
	reg.AddW("C16", "forwarder-envelope", reg.Quick, 5, func(t reg.Tier) *explore.Scenario { return envelopeScenario() })
}
