package hx

import (
	"context"
	"errors"
	"fmt"
	"sync"

	"github.com/ThreeDotsLabs/watermill/message"

	"verif/vs"
)

// ---- scripted subscriber ---------------------------------------------------------------------------

// Delivery is one copy handed out by a ScriptSub subscription.
type Delivery struct {
	Topic   string
	UUID    string
	Attempt int
	Msg     *message.Message
}

func (d *Delivery) Acked() bool   { return vs.PeekClosed(d.Msg.Acked()) }
func (d *Delivery) Nacked() bool  { return vs.PeekClosed(d.Msg.Nacked()) }
func (d *Delivery) Settled() bool { return d.Acked() || d.Nacked() }

// (No locks inside the scripted endpoints: under the controlled scheduler one goroutine runs at a
// time, and fewer visible operations keep the explored state space small. They are not meant for
// free-running use.)
//
// ScriptSub is a message.Subscriber whose subscriptions emit a fixed list of messages per topic.
// One message at a time: the next one is emitted after the previous copy was settled; a Nacked copy is
// redelivered as a fresh copy up to Redeliver times. It honours the Subscribe context and Close.
type ScriptSub struct {
	Name      string
	Script    map[string][]*message.Message
	Redeliver int
	InFlight  bool          // emit without waiting for settlement
	Gate      chan struct{} // when non-nil, emission starts after it is closed
	// EndAfterScript: the subscription ends on its own (its channel is closed) once the script is exhausted,
	// like a transport whose stream has ended
	EndAfterScript bool
	// FailSubscribes: that many Subscribe calls are rejected (ErrScriptSubscribe) before the first one is accepted
	FailSubscribes int
	// BlockSubscribe: Subscribe does not return before the subscriber is closed (a transport still connecting), then fails
	BlockSubscribe bool
	// OnSubscribe, when set, runs inside every Subscribe call (argument: number of earlier calls)
	OnSubscribe func(call int)
	// CtxFor, when set, derives the context of a delivered copy from the subscription context
	// (a transport that preserves or decorates message contexts)
	CtxFor func(ctx context.Context, m *message.Message) context.Context

	mu             sync.Mutex
	closing        chan struct{}
	closed         bool
	wg             sync.WaitGroup
	Deliveries     []*Delivery
	SubscribeCalls int
	CloseCalls     int
	Subscribed     map[string]int
	chans          []chan *message.Message
}

var ErrScriptSubscribe = errors.New("scripted subscribe failure")

func NewScriptSub(name string, script map[string][]*message.Message) *ScriptSub {
	return &ScriptSub{Name: name, Script: script, closing: make(chan struct{}), Subscribed: map[string]int{}}
}

func (s *ScriptSub) String() string { return "hx.ScriptSub(" + s.Name + ")" }

func (s *ScriptSub) Subscribe(ctx context.Context, topic string) (<-chan *message.Message, error) {
	s.SubscribeCalls++
	if s.OnSubscribe != nil {
		s.OnSubscribe(s.SubscribeCalls - 1)
	}
	if s.closed {
		return nil, errors.New("script subscriber closed")
	}
	if s.BlockSubscribe {
		<-s.closing
		return nil, errors.New("script subscriber closed")
	}
	if s.FailSubscribes > 0 {
		s.FailSubscribes--
		return nil, ErrScriptSubscribe
	}
	s.Subscribed[topic]++
	ch := make(chan *message.Message)
	s.chans = append(s.chans, ch)
	msgs := s.Script[topic]
	s.wg.Add(1)
	go func() {
		defer s.wg.Done()
		defer close(ch)
		if s.Gate != nil {
			select {
			case <-s.Gate:
			case <-s.closing:
				return
			case <-ctx.Done():
				return
			}
		}
		for _, m := range msgs {
			for attempt := 0; ; attempt++ {
				c := m.Copy()
				c.SetContext(ctx)
				if s.CtxFor != nil {
					c.SetContext(s.CtxFor(ctx, c))
				}
				d := &Delivery{Topic: topic, UUID: m.UUID, Attempt: attempt, Msg: c}
				select {
				case ch <- c:
				case <-s.closing:
					return
				case <-ctx.Done():
					return
				}
				s.Deliveries = append(s.Deliveries, d)
				if s.InFlight {
					break
				}
				select {
				case <-c.Acked():
				case <-c.Nacked():
					if attempt < s.Redeliver {
						continue
					}
				case <-s.closing:
					return
				case <-ctx.Done():
					return
				}
				break
			}
		}
		if s.EndAfterScript {
			return
		}
		// script exhausted: stay subscribed until closed or cancelled
		select {
		case <-s.closing:
		case <-ctx.Done():
		}
	}()
	return ch, nil
}

func (s *ScriptSub) Close() error {
	s.CloseCalls++
	if s.closed {
		s.wg.Wait()
		return nil
	}
	s.closed = true
	close(s.closing)
	s.wg.Wait()
	return nil
}

// Open releases the gate.
func (s *ScriptSub) Open() {
	if s.Gate != nil {
		close(s.Gate)
	}
}

// Snapshot returns the deliveries so far (harness side, at quiescence).
func (s *ScriptSub) Snapshot() []*Delivery {
	return append([]*Delivery{}, s.Deliveries...)
}

// ---- scripted publisher ------------------------------------------------------------------------------

type PubOutcome int

const (
	PubOK PubOutcome = iota
	PubErr
	PubPanic
	PubErrAfter    // the inner publisher accepted the messages, then an error is reported
	PubErrCanceled // nothing accepted; the error wraps context.Canceled (e.g. a publisher whose own context ended)
	PubErrRootless // nothing accepted; the error follows the causer convention and has nothing underneath (Cause() == nil)
)

// PubCall records one Publish call.
type PubCall struct {
	Topic   string
	Msgs    []*message.Message
	Outcome PubOutcome
	Probe   string // what Probe returned inside the call
}

var ErrScriptPub = errors.New("scripted publish failure")

// ScriptPub is a message.Publisher that records calls; the outcome of the k-th call comes from Outcome.
type ScriptPub struct {
	Name    string
	Outcome func(call int, topic string, msgs []*message.Message) PubOutcome
	Probe   func(c *PubCall) string // sampled inside Publish before returning (e.g. settlement of the consumed message)
	Inner   message.Publisher

	mu         sync.Mutex
	Calls      []*PubCall
	CloseCalls int
}

func NewScriptPub(name string) *ScriptPub { return &ScriptPub{Name: name} }

func (p *ScriptPub) String() string { return "hx.ScriptPub(" + p.Name + ")" }

func (p *ScriptPub) Publish(topic string, msgs ...*message.Message) error {
	n := len(p.Calls)
	c := &PubCall{Topic: topic, Msgs: append([]*message.Message{}, msgs...)}
	p.Calls = append(p.Calls, c)
	if p.Outcome != nil {
		c.Outcome = p.Outcome(n, topic, msgs)
	}
	if p.Probe != nil {
		c.Probe = p.Probe(c)
	}
	switch c.Outcome {
	case PubErr:
		return ErrScriptPub
	case PubErrCanceled:
		return fmt.Errorf("scripted publish failure: %w", context.Canceled)
	case PubErrRootless:
		return &rootlessError{step: "publish"}
	case PubPanic:
		panic("scripted publisher panic")
	}
	if p.Inner != nil {
		if err := p.Inner.Publish(topic, msgs...); err != nil {
			return err
		}
	}
	if c.Outcome == PubErrAfter {
		return ErrScriptPub
	}
	return nil
}

func (p *ScriptPub) Close() error {
	p.CloseCalls++
	return nil
}

func (p *ScriptPub) Snapshot() []*PubCall {
	return append([]*PubCall{}, p.Calls...)
}

// ---- handler behaviours -------------------------------------------------------------------------------

// Behaviour of one handler invocation.
type Behaviour int

const (
	BOut0 Behaviour = iota // no outputs, success
	BOut1
	BOut2
	BErr
	BErrOut // error together with outputs
	BPanicStr
	BPanicErr
	BPanicNil
	BAckOK
	BAckErr
	BAckPanic
	BNackOK
	BNackErr
	BNackPanic
	BCanceledOut        // context.Canceled together with outputs
	BWrappedCanceledOut // an error wrapping context.Canceled together with outputs
	BOutEmpty           // success with an empty, non-nil slice of outputs
	BAckAsyncErr        // hands the message to a goroutine that Acks it, and returns an error at once (the router's Nack races it)
	BRootlessErrOut     // an error whose Cause() and Unwrap() report no underlying error, together with outputs
	BTypedNilErrOut     // a non-nil error interface holding a nil pointer (nil-safe Error method), together with outputs
	NBehaviours
)

// rootlessError is an application error in the "causer" convention that has no underlying cause.
type rootlessError struct{ step string }

func (e *rootlessError) Error() string {
	if e == nil {
		return "rootless error (nil receiver)"
	}
	return "step " + e.step + " failed"
}
func (e *rootlessError) Cause() error  { return nil }
func (e *rootlessError) Unwrap() error { return nil }

var behaviourNames = []string{"out0", "out1", "out2", "err", "err+out", "panic(str)", "panic(err)", "panic(nil)", "ack;ok", "ack;err", "ack;panic", "nack;ok", "nack;err", "nack;panic", "canceled+out", "wrapped-canceled+out", "out-empty-slice", "ack-in-goroutine;err", "rootless-err+out", "typed-nil-err+out"}

func (b Behaviour) String() string { return behaviourNames[b] }

var ErrHandler = errors.New("scripted handler failure")

// Outputs builds n fresh output messages derived from the consumed one.
func Outputs(m *message.Message, n int) []*message.Message {
	var out []*message.Message
	for i := 0; i < n; i++ {
		o := message.NewMessage(fmt.Sprintf("%s/out%d", m.UUID, i), []byte("out-"+string(m.Payload)))
		o.Metadata.Set("from", m.UUID)
		out = append(out, o)
	}
	return out
}

// Do performs behaviour b on message m.
func (b Behaviour) Do(m *message.Message) ([]*message.Message, error) {
	switch b {
	case BOut0:
		return nil, nil
	case BOut1:
		return Outputs(m, 1), nil
	case BOut2:
		return Outputs(m, 2), nil
	case BErr:
		return nil, ErrHandler
	case BErrOut:
		return Outputs(m, 1), ErrHandler
	case BPanicStr:
		panic("scripted handler panic")
	case BPanicErr:
		panic(ErrHandler)
	case BPanicNil:
		panic(nil)
	case BAckOK:
		m.Ack()
		return Outputs(m, 1), nil
	case BAckErr:
		m.Ack()
		return nil, ErrHandler
	case BAckPanic:
		m.Ack()
		panic("scripted handler panic")
	case BNackOK:
		m.Nack()
		return Outputs(m, 1), nil
	case BNackErr:
		m.Nack()
		return nil, ErrHandler
	case BNackPanic:
		m.Nack()
		panic("scripted handler panic")
	case BOutEmpty:
		return []*message.Message{}, nil
	case BAckAsyncErr:
		go m.Ack()
		return nil, ErrHandler
	case BRootlessErrOut:
		return Outputs(m, 1), &rootlessError{step: "validate"}
	case BTypedNilErrOut:
		return Outputs(m, 1), (*rootlessError)(nil)
	case BCanceledOut:
		return Outputs(m, 2), context.Canceled
	case BWrappedCanceledOut:
		return Outputs(m, 1), fmt.Errorf("gave up: %w", context.Canceled)
	}
	return nil, nil
}

// SettlementOf describes the settlement state of a message.
func SettlementOf(m *message.Message) string {
	a, n := vs.PeekClosed(m.Acked()), vs.PeekClosed(m.Nacked())
	switch {
	case a && n:
		return "both"
	case a:
		return "acked"
	case n:
		return "nacked"
	}
	return "unsettled"
}
