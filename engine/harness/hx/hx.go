// Package hx holds the vocabulary shared by the scenario packages: message builders, GoChannel
// configurations, scripted subscribers / publishers / handlers.
package hx

import (
	"fmt"
	"sort"
	"strings"

	"github.com/ThreeDotsLabs/watermill/message"
	"github.com/ThreeDotsLabs/watermill/pubsub/gochannel"
)

// GCfg is a GoChannel configuration.
type GCfg struct {
	Buf        int
	Persistent bool
	Blocking   bool
}

func (c GCfg) String() string {
	s := fmt.Sprintf("buf%d", c.Buf)
	if c.Persistent {
		s += "+pers"
	}
	if c.Blocking {
		s += "+block"
	}
	return s
}

func (c GCfg) New() *gochannel.GoChannel {
	return gochannel.NewGoChannel(gochannel.Config{OutputChannelBuffer: int64(c.Buf), Persistent: c.Persistent, BlockPublishUntilSubscriberAck: c.Blocking}, nil)
}

// AllGCfg enumerates buffer sizes x persistent x blocking.
func AllGCfg(bufs ...int) []GCfg {
	var out []GCfg
	for _, b := range bufs {
		for _, p := range []bool{false, true} {
			for _, bl := range []bool{false, true} {
				out = append(out, GCfg{b, p, bl})
			}
		}
	}
	return out
}

// Msg builds a message with a fixed UUID, a payload derived from it and one metadata entry.
func Msg(uuid string) *message.Message {
	m := message.NewMessage(uuid, []byte("payload-"+uuid))
	m.Metadata["k"] = "v-" + uuid
	m.Metadata["empty"] = "" // an empty value is a value: it travels like any other
	return m
}

// Clone is an independent snapshot of UUID, payload and metadata made without Message.Copy (the oracles must
// not depend on the API under test).
func Clone(m *message.Message) *message.Message {
	c := message.NewMessage(m.UUID, append([]byte(nil), m.Payload...))
	if m.Payload == nil {
		c.Payload = nil
	}
	for k, v := range m.Metadata {
		c.Metadata[k] = v
	}
	return c
}

// SameContent compares UUID, payload and metadata (as sets of pairs) without using Message.Equals.
func SameContent(a, b *message.Message) bool {
	if a.UUID != b.UUID || string(a.Payload) != string(b.Payload) || len(a.Metadata) != len(b.Metadata) {
		return false
	}
	for k, v := range a.Metadata {
		if w, ok := b.Metadata[k]; !ok || w != v {
			return false
		}
	}
	return true
}

func SortedCopy(xs []string) []string {
	out := append([]string{}, xs...)
	sort.Strings(out)
	return out
}

func Join(xs []string) string { return strings.Join(xs, ",") }

// MultisetEq compares two string multisets.
func MultisetEq(a, b []string) bool {
	if len(a) != len(b) {
		return false
	}
	x, y := SortedCopy(a), SortedCopy(b)
	for i := range x {
		if x[i] != y[i] {
			return false
		}
	}
	return true
}
