// Package c20: Pub/Sub decorators are transparent; delay stamps and metrics count exactly.
package c20

import (
	"context"
	stderrors "errors"
	"fmt"
	"strings"
	"time"

	"github.com/ThreeDotsLabs/watermill/components/delay"
	"github.com/ThreeDotsLabs/watermill/components/metrics"
	"github.com/ThreeDotsLabs/watermill/message"
	"github.com/prometheus/client_golang/prometheus"

	"verif/explore"
	"verif/harness/hx"
	"verif/harness/reg"
	"verif/vs"
)

// ---- metrics helpers ---------------------------------------------------------------------------------------

// counts returns metric name -> label value -> count (histogram sample count or counter value).
func counts(reg *prometheus.Registry, label string) map[string]map[string]int {
	out := map[string]map[string]int{}
	mfs, err := reg.Gather()
	if err != nil {
		vs.Fail("gather", "%v", err)
		return out
	}
	for _, mf := range mfs {
		m := map[string]int{}
		for _, metric := range mf.GetMetric() {
			lv := ""
			for _, lp := range metric.GetLabel() {
				if lp.GetName() == label {
					lv = lp.GetValue()
				}
			}
			if h := metric.GetHistogram(); h != nil {
				m[lv] += int(h.GetSampleCount())
			}
			if c := metric.GetCounter(); c != nil {
				m[lv] += int(c.GetValue())
			}
		}
		out[mf.GetName()] = m
	}
	return out
}

type ownCtxKey struct{}

var pubLayers = []string{"transform", "delay", "metrics", "metrics2"}

// ---- (1) publisher stacks -----------------------------------------------------------------------------------

func pubStackScenario(depth int) *explore.Scenario {
	return &explore.Scenario{Name: fmt.Sprintf("publisher-stack/depth%d", depth), C: -1, F: 1, DataOnly: true, Body: func() {
		inner := hx.NewScriptPub("inner")
		inner.Outcome = func(call int, topic string, msgs []*message.Message) hx.PubOutcome {
			return hx.PubOutcome(vs.Choose(2, 1, "inner publisher failure"))
		}
		reg := prometheus.NewRegistry()
		mb := metrics.NewPrometheusMetricsBuilder(reg, "ns", "sub")
		var pub message.Publisher = inner
		n := 1 + vs.Choose(depth, 0, "stack depth")
		stack := ""
		nMetrics, transforms := 0, 0
		for i := 0; i < n; i++ {
			l := pubLayers[vs.Choose(len(pubLayers), 0, "layer")]
			stack = l + ">" + stack
			var err error
			switch l {
			case "transform":
				transforms++
				id := transforms
				pub, err = message.MessageTransformPublisherDecorator(func(m *message.Message) {
					m.Metadata.Set("seen", m.Metadata.Get("seen")+fmt.Sprint(id))
				})(pub)
			case "delay":
				pub, err = delay.NewPublisher(pub, delay.PublisherConfig{AllowNoDelay: true})
			default:
				nMetrics++
				pub, err = mb.DecoratePublisher(pub)
			}
			if err != nil {
				vs.Fail("setup", "%v", err)
				return
			}
		}
		batches := 1 + vs.Choose(2, 0, "publish calls")
		size := 1 + vs.Choose(3, 0, "batch size")
		var sent [][]*message.Message
		var results []error
		for b := 0; b < batches; b++ {
			var batch []*message.Message
			for i := 0; i < size; i++ {
				m := hx.Msg(fmt.Sprintf("b%dm%d", b, i))
				// every message has its own context (values, cancellation): a decorator may add to it, not replace it
				m.SetContext(context.WithValue(context.Background(), ownCtxKey{}, m.UUID))
				batch = append(batch, m)
			}
			sent = append(sent, batch)
			results = append(results, pub.Publish("topic", batch...))
		}
		closeErr := pub.Close()
		cfg := fmt.Sprintf("stack %sinner, %d calls x %d messages", stack, batches, size)
		calls := inner.Snapshot()
		if len(calls) != batches {
			vs.Fail("transparent", "%s: inner publisher saw %d calls", cfg, len(calls))
			return
		}
		okCalls, failCalls := 0, 0
		for b, c := range calls {
			if c.Topic != "topic" || len(c.Msgs) != size {
				vs.Fail("transparent", "%s: call %d reached the inner publisher with topic %q and %d messages", cfg, b, c.Topic, len(c.Msgs))
				continue
			}
			for i, m := range c.Msgs {
				if got := m.Context().Value(ownCtxKey{}); got != m.UUID {
					vs.Fail("transparent", "%s: call %d message %d (%s) left the stack with the context of %v", cfg, b, i, m.UUID, got)
				}
				if m != sent[b][i] {
					vs.Fail("transparent", "%s: call %d message %d is not the object that was published (order or identity changed)", cfg, b, i)
				}
				want := ""
				for k := transforms; k >= 1; k-- {
					want += fmt.Sprint(k)
				}
				if m.Metadata.Get("seen") != want {
					vs.Fail("transparent", "%s: transforms applied %q, expected %q", cfg, m.Metadata.Get("seen"), want)
				}
			}
			innerFailed := c.Outcome != hx.PubOK
			if innerFailed {
				failCalls++
			} else {
				okCalls++
			}
			if (results[b] != nil) != innerFailed {
				vs.Fail("errors-pass-through", "%s: call %d inner failure=%v but the stack returned %v", cfg, b, innerFailed, results[b])
			}
		}
		if inner.CloseCalls != 1 || closeErr != nil {
			vs.Fail("close-passes-through", "%s: inner Close called %d times (err %v)", cfg, inner.CloseCalls, closeErr)
		}
		if nMetrics > 0 {
			c := counts(reg, "success")["ns_sub_publish_time_seconds"]
			if c["true"] != okCalls || c["false"] != failCalls {
				vs.Fail("metrics-publish-count", "%s (metrics decorator applied %d times): %d successful and %d failed publish calls, recorded success=true:%d false:%d", cfg, nMetrics, okCalls, failCalls, c["true"], c["false"])
			}
		}
		vs.Note("%s ok=%d fail=%d", cfg, okCalls, failCalls)
	}}
}

// ---- (2) subscriber stacks -----------------------------------------------------------------------------------

var subLayers = []string{"transform", "metrics", "metrics2"}

func subStackScenario(depth int, c int) *explore.Scenario { return subStackScenarioX(depth, c, nil) }

// fixed: the layers are given (outermost last) instead of chosen: schedules of one particular stack
func subStackScenarioX(depth int, c int, fixed []string) *explore.Scenario {
	name := fmt.Sprintf("subscriber-stack/depth%d", depth)
	if fixed != nil {
		name = "subscriber-stack/" + strings.Join(fixed, "+")
	}
	if c >= 0 {
		name += fmt.Sprintf("/c%d", c)
	}
	// (fixed stacks: a goroutine's first instructions run when it is first scheduled, not at the go statement - what the
	// counting goroutines read and write before their first wait is part of the interleaving)
	return &explore.Scenario{Name: name, C: c, DataOnly: c < 0, Opts: vs.Options{LazyStart: fixed != nil}, Body: func() {
		maxN := 3
		if fixed != nil {
			maxN = 2
		}
		n := 1 + vs.Choose(maxN, 0, "messages")
		var script []*message.Message
		for i := 0; i < n; i++ {
			script = append(script, hx.Msg(fmt.Sprintf("m%d", i)))
		}
		inner := hx.NewScriptSub("inner", map[string][]*message.Message{"t": script})
		reg := prometheus.NewRegistry()
		mb := metrics.NewPrometheusMetricsBuilder(reg, "ns", "sub")
		var sub message.Subscriber = inner
		k := len(fixed)
		if fixed == nil {
			k = 1 + vs.Choose(depth, 0, "stack depth")
		}
		stack := ""
		nMetrics := 0
		for i := 0; i < k; i++ {
			var l string
			if fixed != nil {
				l = fixed[i]
			} else {
				l = subLayers[vs.Choose(len(subLayers), 0, "layer")]
			}
			stack = l + ">" + stack
			var err error
			if l == "transform" {
				sub, err = message.MessageTransformSubscriberDecorator(func(m *message.Message) { m.Metadata.Set("seen", m.Metadata.Get("seen")+"x") })(sub)
			} else {
				nMetrics++
				sub, err = mb.DecorateSubscriber(sub)
			}
			if err != nil {
				vs.Fail("setup", "%v", err)
				return
			}
		}
		// the consumer may end its subscription while it still holds a message and settle that one afterwards
		// (its context is over by then): that settlement is counted like any other
		cancelAt := vs.Choose(n+1, 0, "subscription cancelled while holding message") - 1
		subCtx, cancelSub := context.WithCancel(context.Background())
		defer cancelSub()
		// the inner subscriber may reject the first Subscribe call: the stack reports that error and works as before
		// for the next call
		if vs.Choose(2, 0, "inner subscriber rejects the first Subscribe") == 1 {
			inner.FailSubscribes = 1
			stack = "(first Subscribe rejected) " + stack
			if _, err := sub.Subscribe(subCtx, "t"); !stderrors.Is(err, hx.ErrScriptSubscribe) {
				vs.Fail("transparent", "stack %sinner: the inner subscriber rejected Subscribe, the stack returned %v", stack, err)
			}
		}
		ch, err := sub.Subscribe(subCtx, "t")
		if err != nil {
			vs.Fail("subscribe-error", "%v", err)
			return
		}
		if cancelAt >= 0 {
			n = cancelAt + 1 // nothing is delivered after the cancel
		}
		var got []string
		acks, nacks := 0, 0
		done := make(chan struct{})
		go func() {
			defer close(done)
			for m := range ch {
				got = append(got, m.UUID)
				if len(got)-1 == cancelAt {
					cancelSub()
					vs.Quiesce() // the decorators have seen the context end before the settlement comes
				}
				if vs.Choose(2, 0, "ack or nack") == 0 {
					m.Ack()
					acks++
				} else {
					m.Nack()
					nacks++
				}
			}
		}()
		if cancelAt >= 0 {
			<-done // the consumer settles its last message after its own quiescence point
		}
		vs.Quiesce()
		cfg := fmt.Sprintf("stack %sinner, %d messages, subscription cancelled at message %d", stack, n, cancelAt)
		ds := inner.Snapshot()
		if len(got) != n || len(ds) != n {
			vs.Fail("transparent", "%s: consumer received %d, inner handed out %d", cfg, len(got), len(ds))
		}
		for i, u := range got {
			if u != fmt.Sprintf("m%d", i) {
				vs.Fail("transparent", "%s: order changed: %v", cfg, got)
			}
		}
		for _, d := range ds {
			if !d.Settled() {
				vs.Fail("settlement-reaches-inner", "%s: consumer settled %s but the inner subscriber's message is unsettled", cfg, d.UUID)
			}
		}
		if err := sub.Close(); err != nil {
			vs.Fail("close-passes-through", "%s: Close: %v", cfg, err)
		}
		<-done
		if inner.CloseCalls != 1 {
			vs.Fail("close-passes-through", "%s: inner Close called %d times", cfg, inner.CloseCalls)
		}
		vs.Quiesce()
		if nMetrics > 0 {
			c := counts(reg, "acked")["ns_sub_subscriber_messages_received_total"]
			if c["acked"] != acks || c["nacked"] != nacks {
				vs.Fail("metrics-received-count", "%s (metrics decorator applied %d times): %d acked %d nacked, recorded acked:%d nacked:%d", cfg, nMetrics, acks, nacks, c["acked"], c["nacked"])
			}
		}
		vs.Note("%s acks=%d nacks=%d", cfg, acks, nacks)
	}}
}

// Close while a Subscribe call is still inside the inner subscriber (a transport that is still connecting and gives up
// when it is closed): like the undecorated subscriber, the stack passes the Close on - once - and both calls return.
func pendingSubscribeScenario() *explore.Scenario {
	return &explore.Scenario{Name: "subscriber-stack/close-during-pending-subscribe", C: 0, Body: func() {
		inner := hx.NewScriptSub("inner", nil)
		inner.BlockSubscribe = true
		reg := prometheus.NewRegistry()
		mb := metrics.NewPrometheusMetricsBuilder(reg, "ns", "sub")
		var sub message.Subscriber = inner
		k := 1 + vs.Choose(2, 0, "stack depth")
		stack := ""
		for i := 0; i < k; i++ {
			var err error
			if vs.Choose(2, 0, "layer") == 0 {
				stack = "transform>" + stack
				sub, err = message.MessageTransformSubscriberDecorator(func(m *message.Message) {})(sub)
			} else {
				stack = "metrics>" + stack
				sub, err = mb.DecorateSubscriber(sub)
			}
			if err != nil {
				vs.Fail("setup", "%v", err)
				return
			}
		}
		subscribeReturned := false
		var subErr error
		go func() {
			_, subErr = sub.Subscribe(context.Background(), "t")
			subscribeReturned = true
		}()
		vs.Quiesce() // the Subscribe call is inside the inner subscriber now
		if inner.SubscribeCalls != 1 || subscribeReturned {
			vs.Fail("setup", "stack %sinner: the pending Subscribe is not where it should be (inner calls %d, returned %v)", stack, inner.SubscribeCalls, subscribeReturned)
			return
		}
		if err := sub.Close(); err != nil { // hang = Close never returns
			vs.Fail("close-passes-through", "stack %sinner: Close: %v", stack, err)
		}
		vs.Quiesce()
		if inner.CloseCalls != 1 {
			vs.Fail("close-passes-through", "stack %sinner: inner Close called %d times", stack, inner.CloseCalls)
		}
		if !subscribeReturned || subErr == nil {
			vs.Fail("transparent", "stack %sinner: the pending Subscribe returned=%v err=%v after Close", stack, subscribeReturned, subErr)
		}
		vs.Note("stack %sinner ok", stack)
	}}
}

// One SubscriberDecorator value used for several subscribers (what Router.AddSubscriberDecorators does with every
// handler) or twice in one stack: each decorated subscriber is its own object; closing one leaves the other delivering,
// and closing the other afterwards works like the first time.
func sharedDecoratorValueScenario() *explore.Scenario {
	return &explore.Scenario{Name: "subscriber-stack/one-decorator-value-two-subscribers", C: 0, Body: func() {
		dec := message.MessageTransformSubscriberDecorator(func(m *message.Message) { m.Metadata.Set("seen", m.Metadata.Get("seen")+"x") })
		shape := vs.Choose(2, 0, "two subscribers | twice in one stack")
		innerA := hx.NewScriptSub("innerA", map[string][]*message.Message{"t": {hx.Msg("a0")}})
		innerB := hx.NewScriptSub("innerB", map[string][]*message.Message{"t": {hx.Msg("b0"), hx.Msg("b1")}})
		subB, err := dec(innerB)
		if err != nil {
			vs.Fail("setup", "%v", err)
			return
		}
		var subA message.Subscriber
		wantSeenB := "x"
		if shape == 0 {
			subA, err = dec(innerA)
		} else {
			subA, err = dec(innerA) // closed first, as in the other shape
			if err == nil {
				subB, err = dec(subB) // and B carries the decorator twice
				wantSeenB = "xx"
			}
		}
		if err != nil {
			vs.Fail("setup", "%v", err)
			return
		}
		chA, errA := subA.Subscribe(context.Background(), "t")
		chB, errB := subB.Subscribe(context.Background(), "t")
		if errA != nil || errB != nil {
			vs.Fail("subscribe-error", "%v %v", errA, errB)
			return
		}
		m := <-chA
		m.Ack()
		closeNoPanic := func(name string, s message.Subscriber) {
			defer func() {
				if r := recover(); r != nil {
					vs.Fail("close-passes-through", "Close of subscriber %s panicked: %v", name, r)
				}
			}()
			if err := s.Close(); err != nil {
				vs.Fail("close-passes-through", "Close of subscriber %s: %v", name, err)
			}
		}
		closeNoPanic("A", subA)
		// B is untouched by A's Close: with a reader waiting, every message comes through
		var gotB []string
		done := make(chan struct{})
		go func() {
			defer close(done)
			for m := range chB {
				gotB = append(gotB, m.UUID+":"+m.Metadata.Get("seen"))
				m.Ack()
			}
		}()
		vs.Quiesce()
		if want := fmt.Sprintf("[b0:%s b1:%s]", wantSeenB, wantSeenB); fmt.Sprint(gotB) != want {
			vs.Fail("transparent", "shape %d: after subscriber A (same decorator value) was closed, subscriber B delivered %v, expected %s", shape, gotB, want)
		}
		closeNoPanic("B", subB)
		<-done
		if innerA.CloseCalls != 1 || innerB.CloseCalls != 1 {
			vs.Fail("close-passes-through", "shape %d: inner Close calls A=%d B=%d", shape, innerA.CloseCalls, innerB.CloseCalls)
		}
		vs.Note("shape %d ok", shape)
	}}
}

// ---- (2b) the same message object travels through both metrics decorators ----------------------------------------
//
// A consumer republishes the very message it received (a pass-through handler does), or hands a message it just
// published to a subscriber-side decorator: each decorator marks the message context as "observed" to stay
// idempotent when applied twice, and the two marks must not be confused with each other.
func forwardScenario() *explore.Scenario {
	return &explore.Scenario{Name: "forward-same-object", C: -1, DataOnly: true, Body: func() {
		n := 1 + vs.Choose(2, 0, "messages")
		var script []*message.Message
		for i := 0; i < n; i++ {
			script = append(script, hx.Msg(fmt.Sprintf("m%d", i)))
		}
		innerSub := hx.NewScriptSub("inner", map[string][]*message.Message{"t": script})
		innerPub := hx.NewScriptPub("inner")
		pubFails := vs.Choose(2, 0, "publish outcome") == 1
		innerPub.Outcome = func(int, string, []*message.Message) hx.PubOutcome {
			if pubFails {
				return hx.PubErr
			}
			return hx.PubOK
		}
		reg := prometheus.NewRegistry()
		mb := metrics.NewPrometheusMetricsBuilder(reg, "ns", "sub")
		twice := vs.Choose(2, 0, "decorators applied twice") == 1
		var sub message.Subscriber = innerSub
		var pub message.Publisher = innerPub
		var err error
		for i := 0; i < 1+map[bool]int{false: 0, true: 1}[twice]; i++ {
			if sub, err = mb.DecorateSubscriber(sub); err != nil {
				vs.Fail("setup", "%v", err)
				return
			}
			if pub, err = mb.DecoratePublisher(pub); err != nil {
				vs.Fail("setup", "%v", err)
				return
			}
		}
		ch, err := sub.Subscribe(context.Background(), "t")
		if err != nil {
			vs.Fail("subscribe-error", "%v", err)
			return
		}
		published := 0
		go func() {
			for m := range ch {
				pub.Publish("out", m) // the received object itself
				published++
				m.Ack()
			}
		}()
		vs.Quiesce()
		cfg := fmt.Sprintf("%d messages received through the metrics subscriber and republished as they are through the metrics publisher (decorators applied twice=%v, publish fails=%v)", n, twice, pubFails)
		if published != n || len(innerPub.Snapshot()) != n {
			vs.Fail("transparent", "%s: %d publish calls made, %d reached the inner publisher", cfg, published, len(innerPub.Snapshot()))
		}
		c := counts(reg, "success")["ns_sub_publish_time_seconds"]
		wantOK, wantFail := n, 0
		if pubFails {
			wantOK, wantFail = 0, n
		}
		if c["true"] != wantOK || c["false"] != wantFail {
			vs.Fail("metrics-publish-count", "%s: recorded success=true:%d false:%d", cfg, c["true"], c["false"])
		}
		r := counts(reg, "acked")["ns_sub_subscriber_messages_received_total"]
		if r["acked"] != n || r["nacked"] != 0 {
			vs.Fail("metrics-received-count", "%s: recorded acked:%d nacked:%d", cfg, r["acked"], r["nacked"])
		}
		vs.Note("%s", cfg)
		sub.Close()
	}}
}

// ---- (3) delay.Publisher --------------------------------------------------------------------------------------

var delaySources = []string{"none", "metadata", "ctx-for-1h", "ctx-for-0", "ctx-for-past", "ctx-until-1h", "ctx-until-past", "ctx-zero-value", "ctx-until-zero-time"}

func delayScenario() *explore.Scenario {
	return &explore.Scenario{Name: "delay-publisher", C: -1, DataOnly: true, Body: func() {
		gen := []string{"absent", "present", "failing"}[vs.Choose(3, 0, "default generator")]
		allow := vs.Choose(2, 0, "AllowNoDelay") == 1
		size := 1 + vs.Choose(2, 0, "batch size")
		inner := hx.NewScriptPub("inner")
		cfgP := delay.PublisherConfig{AllowNoDelay: allow}
		genErr := stderrors.New("generator failed")
		switch gen {
		case "present":
			cfgP.DefaultDelayGenerator = func(delay.DefaultDelayGeneratorParams) (delay.Delay, error) { return delay.For(90 * time.Second), nil }
		case "failing":
			cfgP.DefaultDelayGenerator = func(delay.DefaultDelayGeneratorParams) (delay.Delay, error) { return delay.Delay{}, genErr }
		}
		pub, err := delay.NewPublisher(inner, cfgP)
		if err != nil {
			vs.Fail("setup", "%v", err)
			return
		}
		now := vs.Now().UTC()
		var batch []*message.Message
		var srcs []string
		for i := 0; i < size; i++ {
			src := delaySources[vs.Choose(len(delaySources), 0, "delay source")]
			also := vs.Choose(2, 0, "metadata and context both") == 1
			m := hx.Msg(fmt.Sprintf("m%d", i))
			ctx := context.Background()
			switch src {
			case "metadata":
				m.Metadata.Set(delay.DelayedForKey, "5m0s")
				m.Metadata.Set(delay.DelayedUntilKey, now.Add(5*time.Minute).Format(time.RFC3339))
				if also {
					ctx = delay.WithContext(ctx, delay.For(time.Hour))
				}
			case "ctx-for-1h":
				ctx = delay.WithContext(ctx, delay.For(time.Hour))
			case "ctx-for-0":
				ctx = delay.WithContext(ctx, delay.For(0))
			case "ctx-for-past":
				ctx = delay.WithContext(ctx, delay.For(-time.Minute))
			case "ctx-until-1h":
				ctx = delay.WithContext(ctx, delay.Until(now.Add(time.Hour)))
			case "ctx-until-past":
				ctx = delay.WithContext(ctx, delay.Until(now.Add(-time.Hour)))
			case "ctx-zero-value": // the zero value of Delay is documented as a zero delay
				ctx = delay.WithContext(ctx, delay.Delay{})
			case "ctx-until-zero-time":
				ctx = delay.WithContext(ctx, delay.Until(time.Time{}))
			}
			m.SetContext(ctx)
			batch = append(batch, m)
			srcs = append(srcs, src)
		}
		cfg := fmt.Sprintf("generator=%s AllowNoDelay=%v sources=%v", gen, allow, srcs)
		perr := pub.Publish("topic", batch...)
		calls := inner.Snapshot()
		// does every message have a delay available?
		needFail := false
		for _, s := range srcs {
			if s == "none" && (gen == "failing" || (gen == "absent" && !allow)) {
				needFail = true
			}
		}
		if needFail {
			if perr == nil || len(calls) != 0 {
				vs.Fail("no-delay-no-publish", "%s: a message has no delay available but Publish returned %v and the inner publisher saw %d calls", cfg, perr, len(calls))
			}
			vs.Note("%s -> refused", cfg)
			return
		}
		if perr != nil {
			vs.Fail("delay-publish", "%s: Publish failed: %v", cfg, perr)
			return
		}
		if len(calls) != 1 || len(calls[0].Msgs) != size {
			vs.Fail("batch-in-one-call", "%s: inner publisher saw %d calls", cfg, len(calls))
			return
		}
		for i, m := range calls[0].Msgs {
			if m != batch[i] {
				vs.Fail("transparent", "%s: message %d changed identity/order", cfg, i)
			}
			df, du := m.Metadata.Get(delay.DelayedForKey), m.Metadata.Get(delay.DelayedUntilKey)
			var wantFor time.Duration
			has := true
			switch srcs[i] {
			case "metadata":
				wantFor = 5 * time.Minute
			case "ctx-for-1h", "ctx-until-1h":
				wantFor = time.Hour
			case "ctx-for-0":
				wantFor = 0
			case "ctx-for-past":
				wantFor = -time.Minute
			case "ctx-until-past":
				wantFor = -time.Hour
			case "none":
				if gen == "present" {
					wantFor = 90 * time.Second
				} else {
					has = false
				}
			case "ctx-zero-value", "ctx-until-zero-time":
				// a delay IS present in the context: it wins over the generator; only the precedence is
				// asserted for these odd values (their delayed_until is the zero time)
				if df == "" || du == "" {
					vs.Fail("delay-precedence", "%s: message %d carries a (zero) delay in its context but was forwarded without a delay stamp", cfg, i)
				}
				if gen == "present" && df == "1m30s" {
					vs.Fail("delay-precedence", "%s: message %d carries a (zero) delay in its context but got the default generator's delay", cfg, i)
				}
				continue
			}
			if !has {
				if df != "" || du != "" {
					vs.Fail("delay-precedence", "%s: message %d without any delay got %q/%q", cfg, i, df, du)
				}
				continue
			}
			gotFor, err := time.ParseDuration(df)
			if err != nil || gotFor != wantFor {
				vs.Fail("delay-precedence", "%s: message %d (%s) has delayed_for %q, expected %v", cfg, i, srcs[i], df, wantFor)
				continue
			}
			until, err := time.Parse(time.RFC3339, du)
			if err != nil {
				vs.Fail("delay-until-agrees", "%s: message %d has delayed_until %q", cfg, i, du)
				continue
			}
			if diff := until.Sub(now.Add(gotFor)); diff > time.Second || diff < -time.Second {
				vs.Fail("delay-until-agrees", "%s: message %d: delayed_until %s is not now+delayed_for (%s + %v)", cfg, i, du, now.Format(time.RFC3339), gotFor)
			}
		}
		vs.Note("%s -> ok", cfg)
	}}
}

// ---- (4) handler metrics in a router --------------------------------------------------------------------------

func handlerMetricsScenario(c int) *explore.Scenario {
	name := "handler-metrics"
	if c >= 0 {
		name += fmt.Sprintf("/c%d", c)
	}
	return &explore.Scenario{Name: name, C: c, DataOnly: c < 0, Body: func() {
		n := 1 + vs.Choose(2, 0, "messages")
		twice := vs.Choose(2, 0, "metrics added twice") == 1
		var script []*message.Message
		for i := 0; i < n; i++ {
			script = append(script, hx.Msg(fmt.Sprintf("m%d", i)))
		}
		sub := hx.NewScriptSub("s", map[string][]*message.Message{"in": script})
		pub := hx.NewScriptPub("p")
		pubFail := 0
		pub.Outcome = func(int, string, []*message.Message) hx.PubOutcome {
			o := hx.PubOutcome(vs.Choose(2, 0, "publish outcome"))
			if o != hx.PubOK {
				pubFail++
			}
			return o
		}
		reg := prometheus.NewRegistry()
		mb := metrics.NewPrometheusMetricsBuilder(reg, "ns", "sub")
		r, _ := message.NewRouter(message.RouterConfig{}, nil)
		mb.AddPrometheusRouterMetrics(r)
		if twice {
			mb.AddPrometheusRouterMetrics(r)
		}
		okH, errH, panicH := 0, 0, 0
		r.AddHandler("h", "in", sub, "out", pub, func(m *message.Message) ([]*message.Message, error) {
			switch vs.Choose(3, 0, "handler outcome") {
			case 1:
				errH++
				return nil, hx.ErrHandler
			case 2:
				panicH++
				panic("handler panic")
			}
			okH++
			return hx.Outputs(m, 1), nil
		})
		go func() { r.Run(context.Background()) }()
		<-r.Running()
		vs.Quiesce()
		mult := 1
		if twice {
			mult = 2 // the middleware is a plain middleware: added twice it observes twice (only the decorators de-duplicate)
		}
		hc := counts(reg, "success")["ns_sub_handler_execution_time_seconds"]
		cfg := fmt.Sprintf("messages=%d twice=%v ok=%d err=%d panic=%d publishFailures=%d", n, twice, okH, errH, panicH, pubFail)
		if hc["true"] != okH*mult || hc["false"] != (errH+panicH)*mult {
			vs.Fail("metrics-handler-count", "%s: handler observations success=true:%d false:%d", cfg, hc["true"], hc["false"])
		}
		pc := counts(reg, "success")["ns_sub_publish_time_seconds"]
		if pc["true"] != okH-pubFail || pc["false"] != pubFail {
			vs.Fail("metrics-publish-count", "%s: publish observations success=true:%d false:%d", cfg, pc["true"], pc["false"])
		}
		sc := counts(reg, "acked")["ns_sub_subscriber_messages_received_total"]
		acked, nacked := 0, 0
		for _, d := range sub.Snapshot() {
			if d.Acked() {
				acked++
			} else if d.Nacked() {
				nacked++
			}
		}
		if sc["acked"] != acked || sc["nacked"] != nacked {
			vs.Fail("metrics-received-count", "%s: %d acked %d nacked deliveries, recorded acked:%d nacked:%d", cfg, acked, nacked, sc["acked"], sc["nacked"])
		}
		vs.Note("%s", cfg)
	}}
}

func init() {
	reg.AddW("C20", "forward-same-object", reg.Quick, 2, func(t reg.Tier) *explore.Scenario { return forwardScenario() })
	add := func(tier reg.Tier, w int, mk func(t reg.Tier) *explore.Scenario) {
		reg.AddW("C20", mk(reg.Quick).Name, tier, w, mk)
	}
	add(reg.Quick, 5, func(t reg.Tier) *explore.Scenario { return pubStackScenario(2) })
	add(reg.Thorough, 30, func(t reg.Tier) *explore.Scenario { return pubStackScenario(3) })
	add(reg.Quick, 10, func(t reg.Tier) *explore.Scenario { return subStackScenario(2, -1) })
	add(reg.Thorough, 30, func(t reg.Tier) *explore.Scenario { return subStackScenario(3, -1) })
	add(reg.Quick, 20, func(t reg.Tier) *explore.Scenario { return subStackScenario(1, 0) })
	// the metrics decorator applied twice: every schedule without preemptions of the two pumps and their counting goroutines
	add(reg.Quick, 20, func(t reg.Tier) *explore.Scenario {
		if t == reg.Thorough {
			return subStackScenarioX(2, 1, []string{"metrics", "metrics"})
		}
		return subStackScenarioX(2, 0, []string{"metrics", "metrics"})
	})
	add(reg.Thorough, 20, func(t reg.Tier) *explore.Scenario { return subStackScenarioX(2, 0, []string{"transform", "metrics2"}) })
	add(reg.Quick, 5, func(t reg.Tier) *explore.Scenario { return pendingSubscribeScenario() })
	add(reg.Quick, 5, func(t reg.Tier) *explore.Scenario { return sharedDecoratorValueScenario() })
	add(reg.Quick, 5, func(t reg.Tier) *explore.Scenario { return delayScenario() })
	add(reg.Quick, 10, func(t reg.Tier) *explore.Scenario { return handlerMetricsScenario(-1) })
}
