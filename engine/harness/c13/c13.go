// Package c13: poison queue — a failed message is either in the poison topic or still failing.
package c13

import (
	"context"
	stderrors "errors"
	"fmt"
	"strings"

	"github.com/ThreeDotsLabs/watermill/message"
	"github.com/ThreeDotsLabs/watermill/message/router/middleware"
	"github.com/pkg/errors"

	"verif/explore"
	"verif/harness/hx"
	"verif/harness/reg"
	"verif/vs"
)

var (
	e1 = stderrors.New("first failure")
	e2 = stderrors.New("second failure")
	// an error with an empty text, and one in the causer convention with nothing underneath: both are failures
	eEmpty    = stderrors.New("")
	eRootless = &rootless{}
)

type rootless struct{}

func (*rootless) Error() string { return "rootless failure" }
func (*rootless) Cause() error  { return nil }

// the poison publisher accepts the message, or fails: with a plain error, or with an error in the causer convention that
// has nothing underneath
var poisonPubOutcomes = []hx.PubOutcome{hx.PubOK, hx.PubErr, hx.PubErrRootless}

var results = []string{"ok0", "ok1", "e1", "wrapped-e1", "e2", "e1+outputs", "empty-text", "rootless"}
var filters = []string{"PoisonQueue", "all", "none", "is-e1", "text-second", "identical-to-e1", "wrapped-only"}
var metas = []string{"empty", "some", "pre-poisoned"}

func handlerResult(kind string, m *message.Message) ([]*message.Message, error) {
	switch kind {
	case "ok0":
		return nil, nil
	case "ok1":
		return hx.Outputs(m, 1), nil
	case "e1":
		return nil, e1
	case "wrapped-e1":
		return nil, errors.Wrap(e1, "while handling")
	case "e2":
		return nil, e2
	case "e1+outputs":
		return hx.Outputs(m, 1), e1
	case "empty-text":
		return nil, eEmpty
	case "rootless":
		return nil, eRootless
	}
	return nil, nil
}

func accepts(filter string, err error) bool {
	switch filter {
	case "PoisonQueue", "all":
		return true
	case "none":
		return false
	case "is-e1":
		return stderrors.Is(err, e1)
	case "text-second":
		return strings.Contains(err.Error(), "second")
	case "identical-to-e1": // the very error value, not something wrapping it
		return err == e1
	case "wrapped-only": // only errors that wrap another one
		return errors.Cause(err) != err
	}
	return false
}

func build(filter string, pub message.Publisher) message.HandlerMiddleware {
	var mw message.HandlerMiddleware
	var err error
	if filter == "PoisonQueue" {
		mw, err = middleware.PoisonQueue(pub, "poison")
	} else {
		mw, err = middleware.PoisonQueueWithFilter(pub, "poison", func(e error) bool { return accepts(filter, e) })
	}
	if err != nil {
		panic(err)
	}
	return mw
}

func mkMsg(meta string) *message.Message {
	m := message.NewMessage("u1", []byte("payload"))
	switch meta {
	case "some":
		m.Metadata.Set("k", "v")
	case "pre-poisoned":
		m.Metadata.Set(middleware.ReasonForPoisonedKey, "an older reason")
		m.Metadata.Set(middleware.PoisonedTopicKey, "older-topic")
		m.Metadata.Set("k", "v")
	}
	return m
}

// checkPoisonCall verifies the single poison publish.
func checkPoisonCall(cfg string, calls []*hx.PubCall, orig *message.Message, herr error, topic, handler, subscriber string) {
	if len(calls) != 1 {
		vs.Fail("poison-once", "%s: %d publishes to the poison topic, expected exactly 1", cfg, len(calls))
		return
	}
	c := calls[0]
	if c.Topic != "poison" || len(c.Msgs) != 1 {
		vs.Fail("poison-once", "%s: poison publish on %q with %d messages", cfg, c.Topic, len(c.Msgs))
		return
	}
	p := c.Msgs[0]
	if p.UUID != orig.UUID || string(p.Payload) != string(orig.Payload) {
		vs.Fail("poison-content", "%s: poisoned message has uuid %q payload %q", cfg, p.UUID, p.Payload)
	}
	want := map[string]string{middleware.ReasonForPoisonedKey: herr.Error(), middleware.PoisonedTopicKey: topic,
		middleware.PoisonedHandlerKey: handler, middleware.PoisonedSubscriberKey: subscriber}
	for k, v := range want {
		if p.Metadata.Get(k) != v {
			vs.Fail("poison-metadata", "%s: poisoned message has %s=%q, expected %q", cfg, k, p.Metadata.Get(k), v)
		}
	}
	for k, v := range orig.Metadata {
		if _, poisonKey := want[k]; !poisonKey && p.Metadata.Get(k) != v {
			vs.Fail("poison-content", "%s: poisoned message lost metadata %s", cfg, k)
		}
	}
}

func standalone() *explore.Scenario {
	return &explore.Scenario{Name: "standalone", C: -1, DataOnly: true, Body: func() {
		res := results[vs.Choose(len(results), 0, "handler result")]
		filter := filters[vs.Choose(len(filters), 0, "filter")]
		meta := metas[vs.Choose(len(metas), 0, "metadata")]
		pubOutcome := poisonPubOutcomes[vs.Choose(len(poisonPubOutcomes), 0, "poison publisher")]
		pubFails := pubOutcome != hx.PubOK
		cfg := fmt.Sprintf("result=%s filter=%s meta=%s poisonPublishFails=%v (outcome %d)", res, filter, meta, pubFails, pubOutcome)
		pub := hx.NewScriptPub("poison")
		pub.Outcome = func(int, string, []*message.Message) hx.PubOutcome { return pubOutcome }
		msg := mkMsg(meta)
		orig := hx.Clone(msg)
		var bareOut []*message.Message
		var bareErr error
		h := func(m *message.Message) ([]*message.Message, error) {
			bareOut, bareErr = handlerResult(res, m)
			return bareOut, bareErr
		}
		out, err := build(filter, pub)(h)(msg)
		calls := pub.Snapshot()
		if bareErr == nil || !accepts(filter, bareErr) {
			if len(calls) != 0 {
				vs.Fail("passes-through", "%s: %d publishes although nothing had to be poisoned", cfg, len(calls))
			}
			if err != bareErr || len(out) != len(bareOut) || (len(out) > 0 && out[0] != bareOut[0]) {
				vs.Fail("passes-through", "%s: result changed: (%d outputs, %v) instead of (%d outputs, %v)", cfg, len(out), err, len(bareOut), bareErr)
			}
			if !hx.SameContent(msg, orig) {
				vs.Fail("passes-through", "%s: message modified: %v", cfg, msg.Metadata)
			}
		} else {
			checkPoisonCall(cfg, calls, orig, bareErr, "", "", "")
			if pubFails {
				if err == nil {
					vs.Fail("error-kept-when-poison-fails", "%s: poison publish failed but the middleware returned nil", cfg)
				} else if !strings.Contains(err.Error(), bareErr.Error()) {
					vs.Fail("error-kept-when-poison-fails", "%s: returned error %q does not contain the handler's error %q", cfg, err.Error(), bareErr.Error())
				}
			} else if err != nil {
				vs.Fail("success-after-poison", "%s: message is in the poison topic but the middleware returned %v", cfg, err)
			}
		}
		vs.Note("%s -> err=%v calls=%d", cfg, err != nil, len(calls))
	}}
}

// A filter with memory (a budget: it accepts only the first b errors it is shown) over a stream of failing
// messages. Whatever the filter answered for a message, the message ends up either in the poison topic
// (and reported as success) or still failing, never neither, and never both.
func budgetStream() *explore.Scenario {
	return &explore.Scenario{Name: "standalone/budget-filter-stream", C: -1, DataOnly: true, Body: func() {
		budget := vs.Choose(4, 0, "filter budget")
		n := 1 + vs.Choose(3, 0, "stream length")
		pub := hx.NewScriptPub("poison")
		accepted := 0
		var verdicts []bool // answers given while the current message is being handled
		mw, err := middleware.PoisonQueueWithFilter(pub, "poison", func(e error) bool {
			v := accepted < budget
			if v {
				accepted++
			}
			verdicts = append(verdicts, v)
			return v
		})
		if err != nil {
			vs.Fail("setup", "%v", err)
			return
		}
		desc := fmt.Sprintf("budget=%d: ", budget)
		for i := 0; i < n; i++ {
			res := []string{"e1", "ok1", "wrapped-e1"}[vs.Choose(3, 0, "handler result")]
			msg := message.NewMessage(fmt.Sprintf("u%d", i), []byte("payload"))
			var bareErr error
			verdicts = nil
			before := len(pub.Snapshot())
			out, err := mw(func(m *message.Message) ([]*message.Message, error) {
				o, e := handlerResult(res, m)
				bareErr = e
				return o, e
			})(msg)
			published := 0
			for _, c := range pub.Snapshot()[before:] {
				for _, pm := range c.Msgs {
					if pm.UUID == msg.UUID && c.Topic == "poison" {
						published++
					}
				}
			}
			cfg := fmt.Sprintf("%smessage %d result=%s filter answered %v", desc, i, res, verdicts)
			desc += res + " "
			if bareErr == nil {
				if err != nil || len(out) != 1 || published != 0 {
					vs.Fail("passes-through", "%s: success changed into (%d outputs, %v), %d poison publishes", cfg, len(out), err, published)
				}
				continue
			}
			anyYes, anyNo := false, false
			for _, v := range verdicts {
				anyYes, anyNo = anyYes || v, anyNo || !v
			}
			switch {
			case published > 1:
				vs.Fail("poison-once", "%s: published %d times to the poison topic", cfg, published)
			case published == 0 && err == nil:
				vs.Fail("in-poison-topic-or-still-failing", "%s: the failed message is neither in the poison topic nor still failing (the middleware returned nil, nothing was published)", cfg)
			case published == 1 && err != nil:
				vs.Fail("success-after-poison", "%s: message is in the poison topic but the middleware returned %v", cfg, err)
			case published == 1 && !anyYes:
				vs.Fail("passes-through", "%s: poisoned although the filter never accepted the error", cfg)
			case published == 0 && !anyNo:
				vs.Fail("poison-once", "%s: the filter accepted the error but nothing was published (returned %v)", cfg, err)
			}
		}
		vs.Note("%s", desc)
	}}
}

func inRouter(c int) *explore.Scenario {
	name := "router"
	if c >= 0 {
		name += fmt.Sprintf("/c%d", c)
	}
	return &explore.Scenario{Name: name, C: c, DataOnly: c < 0, Body: func() {
		res := results[vs.Choose(len(results), 0, "handler result")]
		filter := filters[vs.Choose(len(filters), 0, "filter")]
		pubOutcome := poisonPubOutcomes[vs.Choose(len(poisonPubOutcomes), 0, "poison publisher")]
		pubFails := pubOutcome != hx.PubOK
		cfg := fmt.Sprintf("result=%s filter=%s poisonPublishFails=%v (outcome %d)", res, filter, pubFails, pubOutcome)
		pub := hx.NewScriptPub("poison")
		pub.Outcome = func(int, string, []*message.Message) hx.PubOutcome { return pubOutcome }
		orig := mkMsg("some")
		sub := hx.NewScriptSub("src", map[string][]*message.Message{"in": {orig}})
		r, _ := message.NewRouter(message.RouterConfig{}, nil)
		r.AddMiddleware(build(filter, pub))
		var bareErr error
		r.AddNoPublisherHandler("the-handler", "in", sub, func(m *message.Message) error {
			_, bareErr = handlerResult(strings.TrimSuffix(res, "+outputs"), m)
			return bareErr
		})
		go func() {
			if err := r.Run(context.Background()); err != nil {
				vs.Fail("run-result", "%v", err)
			}
		}()
		<-r.Running()
		vs.Quiesce()
		ds := sub.Snapshot()
		if len(ds) != 1 {
			vs.Fail("intake", "%d deliveries", len(ds))
			return
		}
		st := hx.SettlementOf(ds[0].Msg)
		calls := pub.Snapshot()
		poisoned := bareErr != nil && accepts(filter, bareErr)
		if poisoned {
			checkPoisonCall(cfg, calls, orig, bareErr, "in", "the-handler", sub.String())
		} else if len(calls) != 0 {
			vs.Fail("passes-through", "%s: %d poison publishes", cfg, len(calls))
		}
		want := "acked"
		if bareErr != nil && (!poisoned || pubFails) {
			want = "nacked"
		}
		if st != want {
			vs.Fail("settlement", "%s: message is %s, expected %s", cfg, st, want)
		}
		if st == "acked" && bareErr != nil && !(poisoned && !pubFails && len(calls) == 1) {
			vs.Fail("acked-implies-handled-or-poisoned", "%s: acked although it was neither handled nor stored in the poison topic", cfg)
		}
		vs.Note("%s -> %s", cfg, st)
	}}
}

// Two messages go through ONE wrapped handler at the same time (a router with concurrent deliveries): the
// handler, the filter and the poison publisher are places where the other message can get its turn.
func concurrentScenario(c int) *explore.Scenario {
	return &explore.Scenario{Name: fmt.Sprintf("standalone/concurrent-messages/c%d", c), C: c, Body: func() {
		pubFails := vs.Choose(2, 0, "poison publisher") == 1
		pub := hx.NewScriptPub("poison")
		pub.Outcome = func(int, string, []*message.Message) hx.PubOutcome {
			if pubFails {
				return hx.PubErr
			}
			return hx.PubOK
		}
		pub.Probe = func(*hx.PubCall) string { vs.Yield(); return "" }
		mw, err := middleware.PoisonQueueWithFilter(pub, "poison", func(e error) bool { vs.Yield(); return stderrors.Is(e, e1) })
		if err != nil {
			vs.Fail("setup", "%v", err)
			return
		}
		results := map[string]string{"a": "e1", "b": []string{"ok1", "e2", "e1"}[vs.Choose(3, 0, "result of the second message")]}
		h := mw(func(m *message.Message) ([]*message.Message, error) {
			vs.Yield()
			return handlerResult(results[m.UUID], m)
		})
		type res struct {
			out []*message.Message
			err error
		}
		got := map[string]res{}
		var wg vs.WaitGroup
		for _, id := range []string{"a", "b"} {
			id := id
			wg.Add(1)
			go func() {
				defer wg.Done()
				o, e := h(message.NewMessage(id, []byte("payload "+id)))
				got[id] = res{o, e}
			}()
		}
		wg.Wait()
		for _, id := range []string{"a", "b"} {
			cfg := fmt.Sprintf("messages a:%s b:%s handled concurrently (poison publish fails=%v), message %s", results["a"], results["b"], pubFails, id)
			_, herr := handlerResult(results[id], message.NewMessage(id, nil))
			published := 0
			for _, c := range pub.Snapshot() {
				for _, pm := range c.Msgs {
					if pm.UUID == id {
						published++
						if herr != nil && pm.Metadata.Get(middleware.ReasonForPoisonedKey) != herr.Error() {
							vs.Fail("poison-metadata", "%s: poisoned with reason %q, its handler failed with %q", cfg, pm.Metadata.Get(middleware.ReasonForPoisonedKey), herr.Error())
						}
					}
				}
			}
			r := got[id]
			switch {
			case herr == nil:
				if r.err != nil || len(r.out) != 1 || published != 0 {
					vs.Fail("passes-through", "%s: success became (%d outputs, %v), %d poison publishes", cfg, len(r.out), r.err, published)
				}
			case !stderrors.Is(herr, e1):
				if r.err != herr || published != 0 {
					vs.Fail("passes-through", "%s: filtered-out error %v became %v, %d poison publishes", cfg, herr, r.err, published)
				}
			default:
				if published != 1 {
					vs.Fail("poison-once", "%s: %d publishes to the poison topic", cfg, published)
				}
				if pubFails && r.err == nil {
					vs.Fail("error-kept-when-poison-fails", "%s: poison publish failed but the middleware returned nil", cfg)
				}
				if !pubFails && r.err != nil {
					vs.Fail("success-after-poison", "%s: in the poison topic but the middleware returned %v", cfg, r.err)
				}
			}
		}
		vs.Note("a:%s b:%s", results["a"], results["b"])
	}}
}

// One function wrapped once by the middleware and registered under two router handlers (the middleware is an
// ordinary function wrapper: nothing says it must be installed through AddMiddleware): every poisoned message
// names the handler, topic and subscriber it failed in.
func sharedWrapperScenario() *explore.Scenario {
	return &explore.Scenario{Name: "router/one-wrapped-function-under-two-handlers", C: -1, DataOnly: true, Body: func() {
		filter := filters[vs.Choose(len(filters), 0, "filter")]
		poison := hx.NewScriptPub("poison")
		wrapped := build(filter, poison)(func(m *message.Message) ([]*message.Message, error) { return nil, e1 })
		r, _ := message.NewRouter(message.RouterConfig{}, nil)
		subs := map[string]*hx.ScriptSub{}
		origs := map[string]*message.Message{}
		order := []string{"h1", "h2"}
		if vs.Choose(2, 0, "which handler fails first") == 1 {
			order = []string{"h2", "h1"}
		}
		var prevGate chan struct{}
		for _, h := range order {
			m := mkMsg("some")
			m.UUID = "u-" + h
			origs[h] = m
			sub := hx.NewScriptSub("src-"+h, map[string][]*message.Message{"in-" + h: {m}})
			sub.Gate = make(chan struct{})
			subs[h] = sub
			r.AddNoPublisherHandler(h, "in-"+h, sub, func(m *message.Message) error { _, err := wrapped(m); return err })
			_ = prevGate
		}
		go func() {
			if err := r.Run(context.Background()); err != nil {
				vs.Fail("run-result", "%v", err)
			}
		}()
		<-r.Running()
		for _, h := range order { // one after the other, in the chosen order
			subs[h].Open()
			vs.Quiesce()
		}
		calls := poison.Snapshot()
		if !accepts(filter, e1) {
			if len(calls) != 0 {
				vs.Fail("passes-through", "filter %s: %d poison publishes", filter, len(calls))
			}
			return
		}
		for _, h := range order {
			var mine []*hx.PubCall
			for _, c := range calls {
				if len(c.Msgs) == 1 && c.Msgs[0].UUID == origs[h].UUID {
					mine = append(mine, c)
				}
			}
			checkPoisonCall(fmt.Sprintf("filter=%s, one wrapped function under handlers %v, message of %s", filter, order, h), mine, origs[h], e1, "in-"+h, h, subs[h].String())
		}
		vs.Note("filter=%s order=%v calls=%d", filter, order, len(calls))
	}}
}

// valuesFrom: a context whose cancellation comes from one context and whose values from another (what a
// context-preserving transport hands to the next consumer).
type valuesFrom struct {
	context.Context
	vals context.Context
}

func (c valuesFrom) Value(k any) any {
	if v := c.vals.Value(k); v != nil {
		return v
	}
	return c.Context.Value(k)
}

// chained: handler "first" passes its message on; the transport preserves the message context, so handler
// "second" receives a message whose context still carries first's values. second fails: the poison metadata
// names second, its topic and its subscriber.
func chainedScenario() *explore.Scenario {
	return &explore.Scenario{Name: "router/chained-handlers-context-preserving-transport", C: -1, DataOnly: true, Body: func() {
		filter := filters[vs.Choose(len(filters), 0, "filter")]
		poison := hx.NewScriptPub("poison")
		sub1 := hx.NewScriptSub("src1", map[string][]*message.Message{"in1": {mkMsg("some")}})
		orig2 := mkMsg("some")
		orig2.UUID = "u2"
		sub2 := hx.NewScriptSub("src2", map[string][]*message.Message{"in2": {orig2}})
		sub2.Gate = make(chan struct{})
		var upstream context.Context
		sub2.CtxFor = func(ctx context.Context, m *message.Message) context.Context {
			if upstream == nil {
				return ctx
			}
			return valuesFrom{ctx, upstream}
		}
		mid := hx.NewScriptPub("mid")
		mid.Probe = func(c *hx.PubCall) string {
			if len(c.Msgs) > 0 && upstream == nil {
				upstream = c.Msgs[0].Context()
				sub2.Open()
			}
			return ""
		}
		r, _ := message.NewRouter(message.RouterConfig{}, nil)
		r.AddMiddleware(build(filter, poison))
		r.AddHandler("first", "in1", sub1, "mid", mid, func(m *message.Message) ([]*message.Message, error) {
			return []*message.Message{m}, nil
		})
		r.AddNoPublisherHandler("second", "in2", sub2, func(m *message.Message) error { return e1 })
		go func() {
			if err := r.Run(context.Background()); err != nil {
				vs.Fail("run-result", "%v", err)
			}
		}()
		<-r.Running()
		vs.Quiesce()
		cfg := "filter=" + filter + ", chain first -> second over a context-preserving transport"
		calls := poison.Snapshot()
		if accepts(filter, e1) {
			checkPoisonCall(cfg, calls, orig2, e1, "in2", "second", sub2.String())
		} else if len(calls) != 0 {
			vs.Fail("passes-through", "%s: %d poison publishes", cfg, len(calls))
		}
		vs.Note("%s calls=%d", cfg, len(calls))
	}}
}

func init() {
	reg.AddW("C13", "router/chained-handlers-context-preserving-transport", reg.Quick, 5, func(t reg.Tier) *explore.Scenario { return chainedScenario() })
	reg.AddW("C13", "router/one-wrapped-function-under-two-handlers", reg.Quick, 5, func(t reg.Tier) *explore.Scenario { return sharedWrapperScenario() })
	reg.AddW("C13", "standalone/concurrent-messages/c2", reg.Quick, 10, func(t reg.Tier) *explore.Scenario {
		if t == reg.Thorough {
			return concurrentScenario(3)
		}
		return concurrentScenario(2)
	})
	reg.AddW("C13", "standalone", reg.Quick, 1, func(t reg.Tier) *explore.Scenario { return standalone() })
	reg.AddW("C13", "standalone/budget-filter-stream", reg.Quick, 1, func(t reg.Tier) *explore.Scenario { return budgetStream() })
	reg.AddW("C13", "router", reg.Quick, 5, func(t reg.Tier) *explore.Scenario { return inRouter(-1) })
	reg.AddW("C13", "router/c0", reg.Quick, 20, func(t reg.Tier) *explore.Scenario {
		if t == reg.Thorough {
			return inRouter(1)
		}
		return inRouter(0)
	})
}
