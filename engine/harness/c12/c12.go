// Package c12: Retry middleware — bounded attempts, back-off, first success wins, error kept.
package c12

import (
	"context"
	"fmt"
	"time"

	"github.com/ThreeDotsLabs/watermill/message"
	"github.com/ThreeDotsLabs/watermill/message/router/middleware"

	"verif/explore"
	"verif/harness/hx"
	"verif/harness/reg"
	"verif/vs"
)

var (
	initials    = []time.Duration{0, time.Millisecond, 10 * time.Millisecond}
	multipliers = []float64{1, 1.5, 2, 3}
	rfs         = []float64{0, 0.5, 1}
)

func scenario(maxRetries int, rfIdx int, elapsed bool, cancelling bool) *explore.Scenario {
	name := fmt.Sprintf("retry/max%d/rf%v", maxRetries, rfs[rfIdx])
	if elapsed {
		name += "/maxElapsed"
	}
	if cancelling {
		name += "/ctxCancel"
	}
	return &explore.Scenario{Name: name, C: -1, DataOnly: true, Opts: vs.Options{Jitter: true}, Body: func() {
		initial := initials[vs.Choose(len(initials), 0, "InitialInterval")]
		mult := multipliers[vs.Choose(len(multipliers), 0, "Multiplier")]
		maxInt := 2 * initial
		if vs.Choose(2, 0, "MaxInterval") == 1 {
			maxInt = time.Hour
		}
		rf := rfs[rfIdx]
		failures := vs.Choose(maxRetries+2, 0, "failures before success") // maxRetries+1 = never succeeds
		var maxElapsed time.Duration
		var attemptTakes time.Duration
		if elapsed {
			maxElapsed = 25 * time.Millisecond
			attemptTakes = []time.Duration{0, 7 * time.Millisecond, 30 * time.Millisecond}[vs.Choose(3, 0, "attempt duration")]
		}
		cancelAt := -1
		if cancelling {
			cancelAt = vs.Choose(maxRetries+1, 0, "cancel during attempt")
		}
		// the failures are plain errors, or application errors in the causer convention with nothing underneath
		// ... or errors that wrap context.Canceled / context.DeadlineExceeded although the message context is alive (a
		// downstream call of the handler with a time limit of its own): failures like any other
		errShape := 0
		if !elapsed && !cancelling && maxRetries <= 3 {
			errShape = vs.Choose(4, 0, "shape of the handler's errors")
		} else if vs.Choose(2, 0, "shape of the handler's errors") == 1 {
			errShape = 3
		}
		rootlessErrs := errShape == 1
		var hooks []int
		r := middleware.Retry{MaxRetries: maxRetries, InitialInterval: initial, MaxInterval: maxInt, Multiplier: mult,
			RandomizationFactor: rf, MaxElapsedTime: maxElapsed,
			OnRetryHook: func(n int, d time.Duration) { hooks = append(hooks, n) }}
		ctx, cancel := context.WithCancel(context.Background())
		defer cancel()
		msg := hx.Msg("m")
		msg.SetContext(ctx)
		type att struct{ start, end time.Duration }
		var atts []att
		h := r.Middleware(func(m *message.Message) ([]*message.Message, error) {
			a := att{start: vs.VirtualNow()}
			k := len(atts)
			if attemptTakes > 0 {
				time.Sleep(attemptTakes)
			}
			if k == cancelAt {
				cancel()
			}
			a.end = vs.VirtualNow()
			atts = append(atts, a)
			if k < failures {
				if rootlessErrs {
					return hx.Outputs(m, 1), &rootlessErr{fmt.Sprintf("err%d", k)}
				}
				if errShape >= 2 {
					return hx.Outputs(m, 1), &wrappingErr{fmt.Sprintf("err%d", k), []error{context.Canceled, context.DeadlineExceeded}[errShape-2]}
				}
				return hx.Outputs(m, 1), fmt.Errorf("err%d", k)
			}
			o := hx.Outputs(m, 1)
			o[0].Metadata.Set("attempt", fmt.Sprint(k))
			return o, nil
		})
		out, err := h(msg)
		returnedAt := vs.VirtualNow()
		cfg := fmt.Sprintf("MaxRetries=%d Initial=%v Mult=%v MaxInterval=%v RF=%v MaxElapsed=%v attemptTakes=%v failures=%d cancelAt=%d errorShape=%s", maxRetries, initial, mult, maxInt, rf, maxElapsed, attemptTakes, failures, cancelAt, []string{"plain", "nothing underneath", "wraps context.Canceled", "wraps context.DeadlineExceeded"}[errShape])
		calls := len(atts)
		limit := 1 + maxRetries
		if calls > limit {
			vs.Fail("bounded-attempts", "%s: handler invoked %d times, limit %d", cfg, calls, limit)
		}
		stoppedEarly := cancelling || elapsed
		wantCalls := failures + 1
		if wantCalls > limit {
			wantCalls = limit
		}
		if !stoppedEarly && calls != wantCalls {
			vs.Fail("attempt-count", "%s: handler invoked %d times, expected %d", cfg, calls, wantCalls)
		}
		if stoppedEarly && calls > wantCalls {
			vs.Fail("attempt-count", "%s: handler invoked %d times, more than %d", cfg, calls, wantCalls)
		}
		// giving up before the attempts are used up needs a reason: the context ended, or MaxElapsedTime has passed
		if stoppedEarly && calls < wantCalls && calls > 0 {
			ctxEnded := cancelAt >= 0 && cancelAt < calls
			elapsedPassed := maxElapsed > 0 && returnedAt-atts[0].end >= maxElapsed
			if !ctxEnded && !elapsedPassed {
				vs.Fail("gives-up-only-with-reason", "%s: gave up after %d of %d attempts, %v after the first failure, although the message context is live and MaxElapsedTime has not passed", cfg, calls, wantCalls, returnedAt-atts[0].end)
			}
		}
		succeeded := calls > failures
		if succeeded {
			if err != nil {
				vs.Fail("first-success-wins", "%s: attempt %d succeeded but Retry returned error %v", cfg, failures, err)
			} else if len(out) != 1 || out[0].Metadata.Get("attempt") != fmt.Sprint(failures) {
				vs.Fail("first-success-wins", "%s: Retry did not return the outputs of the first successful attempt", cfg)
			}
			if calls != failures+1 {
				vs.Fail("first-success-wins", "%s: handler invoked again after a success", cfg)
			}
		} else {
			if err == nil {
				vs.Fail("never-failure-to-success", "%s: no attempt succeeded (%d calls) but Retry returned nil error", cfg, calls)
			} else if want := fmt.Sprintf("err%d", calls-1); err.Error() != want {
				vs.Fail("last-error", "%s: Retry returned %q, the last error was %q", cfg, err.Error(), want)
			}
		}
		// hook: 1,2,... after each failed retry
		for i, n := range hooks {
			if n != i+1 {
				vs.Fail("hook-order", "%s: OnRetryHook called with %v", cfg, hooks)
				break
			}
		}
		failedRetries := calls - 1
		if succeeded {
			failedRetries = calls - 2
		}
		if failedRetries < 0 {
			failedRetries = 0
		}
		if len(hooks) != failedRetries {
			vs.Fail("hook-order", "%s: %d failed retries but OnRetryHook called %d times (%v)", cfg, failedRetries, len(hooks), hooks)
		}
		// back-off between attempt k (end) and k+1 (start)
		interval := initial
		for k := 1; k < calls; k++ {
			wait := atts[k].start - atts[k-1].end
			lo := time.Duration(float64(interval) * (1 - rf))
			hi := time.Duration(float64(interval)*(1+rf)) + 2
			if wait < lo-1 {
				vs.Fail("back-off", "%s: retry %d started after %v, configured back-off at least %v", cfg, k, wait, lo)
			}
			// gives up early: once the message context has ended (during attempt k-1 or before) no retry is made,
			// whatever the back-off (zero waits included: the context decides, not the select statement)
			if cancelAt >= 0 && cancelAt <= k-1 {
				vs.Fail("gives-up-early", "%s: the message context ended during attempt %d, but retry %d was made after waiting %v", cfg, cancelAt, k, wait)
			}
			// ... and neither once MaxElapsedTime has passed (strictly: at the deadline itself either is fine)
			if maxElapsed > 0 && atts[k-1].end-atts[0].end > maxElapsed {
				vs.Fail("gives-up-early", "%s: MaxElapsedTime had passed %v after the first failure, but retry %d was made", cfg, atts[k-1].end-atts[0].end, k)
			}
			if wait > hi {
				vs.Fail("back-off-upper", "%s: retry %d started after %v, configured back-off at most %v", cfg, k, wait, hi)
			}
			if float64(interval) >= float64(maxInt)/mult {
				interval = maxInt
			} else {
				interval = time.Duration(float64(interval) * mult)
			}
		}
		vs.Note("calls=%d err=%v hooks=%v", calls, err, hooks)
	}}
}

// Two messages retried at the same time through ONE handler returned by Middleware (what a router does with
// concurrent deliveries): each message keeps its own back-off sequence, attempt count and hook numbering.
func concurrentScenario(c int) *explore.Scenario {
	return &explore.Scenario{Name: fmt.Sprintf("retry/concurrent-messages/c%d", c), C: c, Body: func() {
		const initial = 10 * time.Millisecond
		mult := []float64{1, 2}[vs.Choose(2, 0, "Multiplier")]
		offset := []time.Duration{0, 5 * time.Millisecond, 15 * time.Millisecond, 35 * time.Millisecond}[vs.Choose(4, 0, "second message arrives after")]
		failuresB := vs.Choose(3, 0, "failures of the second message")
		maxRetries := 3
		r := middleware.Retry{MaxRetries: maxRetries, InitialInterval: initial, MaxInterval: time.Hour, Multiplier: mult}
		starts := map[string][]time.Duration{}
		fails := map[string]int{"A": maxRetries + 1, "B": failuresB}
		h := r.Middleware(func(m *message.Message) ([]*message.Message, error) {
			starts[m.UUID] = append(starts[m.UUID], vs.VirtualNow())
			if len(starts[m.UUID]) <= fails[m.UUID] {
				return nil, fmt.Errorf("err-%s-%d", m.UUID, len(starts[m.UUID])-1)
			}
			return hx.Outputs(m, 1), nil
		})
		errs := map[string]error{}
		outs := map[string]int{}
		var wg vs.WaitGroup
		for _, id := range []string{"A", "B"} {
			id := id
			wg.Add(1)
			go func() {
				defer wg.Done()
				if id == "B" && offset > 0 {
					time.Sleep(offset)
				}
				o, err := h(hx.Msg(id))
				errs[id], outs[id] = err, len(o)
			}()
		}
		wg.Wait()
		cfg := fmt.Sprintf("Multiplier=%v, B arrives after %v and fails %d times", mult, offset, failuresB)
		for _, id := range []string{"A", "B"} {
			want := fails[id] + 1
			if want > maxRetries+1 {
				want = maxRetries + 1
			}
			if len(starts[id]) != want {
				vs.Fail("attempt-count", "%s: message %s was attempted %d times, expected %d", cfg, id, len(starts[id]), want)
			}
			if fails[id] > maxRetries {
				if errs[id] == nil || errs[id].Error() != fmt.Sprintf("err-%s-%d", id, maxRetries) {
					vs.Fail("last-error", "%s: message %s returned %v", cfg, id, errs[id])
				}
			} else if errs[id] != nil || outs[id] != 1 {
				vs.Fail("first-success-wins", "%s: message %s returned (%d outputs, %v)", cfg, id, outs[id], errs[id])
			}
			interval := initial
			for k := 1; k < len(starts[id]); k++ {
				if wait := starts[id][k] - starts[id][k-1]; wait < interval-1 {
					vs.Fail("back-off", "%s: message %s waited %v before retry %d, configured back-off %v", cfg, id, wait, k, interval)
				}
				interval = time.Duration(float64(interval) * mult)
			}
		}
		vs.Note("%s A=%v B=%v", cfg, starts["A"], starts["B"])
	}}
}

func init() {
	reg.AddW("C12", "retry/concurrent-messages/c0", reg.Quick, 10, func(t reg.Tier) *explore.Scenario {
		if t == reg.Thorough {
			return concurrentScenario(1)
		}
		return concurrentScenario(0)
	})
	for mr := 1; mr <= 8; mr++ {
		for rfi := range rfs {
			mr, rfi := mr, rfi
			tier := reg.Quick
			if mr > 6 || (mr > 4 && rfi > 0) {
				tier = reg.Thorough
			}
			sc := scenario(mr, rfi, false, false)
			reg.AddW("C12", sc.Name, tier, mr*(rfi+1), func(t reg.Tier) *explore.Scenario { return scenario(mr, rfi, false, false) })
			if mr <= 4 && rfi <= 1 {
				reg.AddW("C12", scenario(mr, rfi, true, false).Name, tier, mr*(rfi+1), func(t reg.Tier) *explore.Scenario { return scenario(mr, rfi, true, false) })
				reg.AddW("C12", scenario(mr, rfi, false, true).Name, tier, mr*(rfi+1), func(t reg.Tier) *explore.Scenario { return scenario(mr, rfi, false, true) })
				reg.AddW("C12", scenario(mr, rfi, true, true).Name, tier, mr*(rfi+1), func(t reg.Tier) *explore.Scenario { return scenario(mr, rfi, true, true) })
			}
		}
	}
}

// rootlessErr follows the Cause()/Unwrap() conventions and has no underlying error.
type rootlessErr struct{ text string }

func (e *rootlessErr) Error() string { return e.text }
func (e *rootlessErr) Cause() error  { return nil }
func (e *rootlessErr) Unwrap() error { return nil }

// wrappingErr wraps another error (Unwrap and Cause) under a text of its own.
type wrappingErr struct {
	text  string
	inner error
}

func (e *wrappingErr) Error() string { return e.text }
func (e *wrappingErr) Unwrap() error { return e.inner }
func (e *wrappingErr) Cause() error  { return e.inner }
