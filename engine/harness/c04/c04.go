// Package c04: GoChannel delivers every published message to every current subscriber; redelivery
// only after Nack and until Ack; every delivery is an independent copy with a live context.
package c04

import (
	"context"
	"fmt"

	"github.com/ThreeDotsLabs/watermill/message"

	"verif/explore"
	"verif/harness/hx"
	"verif/harness/reg"
	"verif/vs"
)

type subSpec struct {
	Concurrent bool // Subscribe runs in its own goroutine, concurrently with the publishers
	Nacks      int  // nack the first Nacks deliveries of every message, then ack
	Mutate     bool // edit the copy's metadata before settling it
	// SafetyNet: after its Ack the consumer also calls Nack (the `defer msg.Nack()` pattern): the refused Nack changes
	// nothing, the message is not delivered again
	SafetyNet bool
}

func (s subSpec) String() string {
	x := fmt.Sprintf("n%d", s.Nacks)
	if s.Mutate {
		x += "m"
	}
	if s.Concurrent {
		x += "c"
	}
	if s.SafetyNet {
		x += "+acknack"
	}
	return x
}

type spec struct {
	Cfg       hx.GCfg
	Pubs      int
	Msgs      int
	Subs      []subSpec
	C         int
	Decoy     bool // a second topic with its own subscription and message
	Batch     bool // a publisher hands all its messages to one Publish call
	EmptyMeta bool // the published messages carry no metadata (subscribers that edit their copy then add the first keys)
	EmptyUUID bool // the first message of the first publisher is published with the empty UUID (the Message doc allows it)
}

// uuid of message i of publisher p
func (sp spec) uuid(p, i int) string {
	if sp.EmptyUUID && p == 0 && i == 0 {
		return ""
	}
	return fmt.Sprintf("p%dm%d", p, i)
}

func (sp spec) name() string {
	n := fmt.Sprintf("%s/P%dxM%d/subs", sp.Cfg, sp.Pubs, sp.Msgs)
	if sp.Decoy {
		n = fmt.Sprintf("%s/P%dxM%d+decoy/subs", sp.Cfg, sp.Pubs, sp.Msgs)
	}
	for _, s := range sp.Subs {
		n += "-" + s.String()
	}
	if sp.Batch {
		n += "/batch"
	}
	if sp.EmptyMeta {
		n += "/no-metadata"
	}
	if sp.EmptyUUID {
		n += "/empty-uuid"
	}
	return n
}

type delivery struct {
	msg     *message.Message
	uuid    string
	attempt int
	acked   bool
}

type ctxKey struct{}

func scenario(sp spec) *explore.Scenario {
	return &explore.Scenario{
		Name: sp.name(), C: sp.C,
		Body: func() { body(sp) },
	}
}

func body(sp spec) {
	g := sp.Cfg.New()
	anyConc := false
	for _, s := range sp.Subs {
		anyConc = anyConc || s.Concurrent
	}
	S := len(sp.Subs)
	deliveries := make([][]*delivery, S+1) // last: decoy subscription
	subEnd := make([]int, S)
	subOK := make([]bool, S)
	origs := map[string]*message.Message{}
	snaps := map[string]*message.Message{}
	snapsAfter := map[string]*message.Message{} // the originals after their publishers recycled them
	pubStart := map[string]int{}
	pubDone := map[string]bool{}

	consume := func(s int, spc subSpec, ch <-chan *message.Message) {
		att := map[string]int{}
		for m := range ch {
			d := &delivery{msg: m, uuid: m.UUID, attempt: att[m.UUID]}
			att[m.UUID]++
			deliveries[s] = append(deliveries[s], d)
			if snap := snaps[m.UUID]; snap == nil || !hx.SameContent(m, snap) {
				vs.Fail("identical-copy", "subscription %d received %q attempt %d with content differing from what was published: metadata=%v payload=%q", s, m.UUID, d.attempt, m.Metadata, m.Payload)
			}
			if err := m.Context().Err(); err != nil {
				vs.Fail("context-live", "subscription %d: context of %q already done on receipt: %v", s, m.UUID, err)
			}
			if v, _ := m.Context().Value(ctxKey{}).(int); v != s+1 {
				vs.Fail("context-derives", "subscription %d: message context does not derive from the Subscribe context (value %v)", s, m.Context().Value(ctxKey{}))
			}
			if spc.Mutate {
				m.Metadata.Set("mut", fmt.Sprintf("by-%d-%d", s, d.attempt))
				m.Metadata.Set("k", "overwritten")
			}
			if d.attempt < spc.Nacks {
				m.Nack()
			} else {
				d.acked = true
				m.Ack()
				if spc.SafetyNet {
					if m.Nack() {
						vs.Fail("redelivery", "subscription %d: Nack after Ack of %q reported success", s, m.UUID)
					}
				}
			}
		}
	}
	subscribe := func(s int, topic string) (<-chan *message.Message, error) {
		return g.Subscribe(context.WithValue(context.Background(), ctxKey{}, s+1), topic)
	}

	// decoy topic with its own subscription
	if sp.Decoy {
		dch, err := subscribe(S, "d")
		if err != nil {
			vs.Fail("subscribe-error", "%v", err)
			return
		}
		go consume(S, subSpec{}, dch)
	}
	for s, spc := range sp.Subs {
		s, spc := s, spc
		if spc.Concurrent {
			continue
		}
		ch, err := subscribe(s, "t")
		if err != nil {
			vs.Fail("subscribe-error", "%v", err)
			return
		}
		subOK[s] = true
		subEnd[s] = -1
		go consume(s, spc, ch)
	}
	decoy := hx.Msg("decoy")
	if sp.Decoy {
		origs["decoy"], snaps["decoy"] = decoy, hx.Clone(decoy)
	}
	for p := 0; p < sp.Pubs; p++ {
		for i := 0; i < sp.Msgs; i++ {
			m := hx.Msg(fmt.Sprintf("p%dm%d", p, i))
			m.UUID = sp.uuid(p, i)
			if sp.EmptyMeta {
				m = message.NewMessage(m.UUID, m.Payload) // no metadata at all
			}
			origs[m.UUID], snaps[m.UUID] = m, hx.Clone(m)
		}
	}
	for s, spc := range sp.Subs {
		s, spc := s, spc
		if !spc.Concurrent {
			continue
		}
		go func() {
			ch, err := subscribe(s, "t")
			if err != nil {
				vs.Fail("subscribe-error", "%v", err)
				return
			}
			vs.Observe("subend %d", s)
			subEnd[s] = vs.ObsCount()
			subOK[s] = true
			consume(s, spc, ch)
		}()
	}
	if sp.Decoy {
		go func() {
			if err := g.Publish("d", decoy); err != nil {
				vs.Fail("publish-error", "%v", err)
			}
			pubDone["decoy"] = true
		}()
	}
	for p := 0; p < sp.Pubs; p++ {
		p := p
		go func() {
			if sp.Batch {
				var us []string
				var ms []*message.Message
				for i := 0; i < sp.Msgs; i++ {
					u := sp.uuid(p, i)
					us, ms = append(us, u), append(ms, origs[u])
				}
				if anyConc {
					vs.Observe("pubstart %s", us[0])
					for _, u := range us {
						pubStart[u] = vs.ObsCount()
					}
				}
				if err := g.Publish("t", ms...); err != nil {
					vs.Fail("publish-error", "Publish(%v) on an open Pub/Sub failed: %v", us, err)
				}
				for _, u := range us {
					origs[u].Payload = []byte("recycled by the publisher")
					origs[u].Metadata.Set("recycled", "yes")
					snapsAfter[u] = hx.Clone(origs[u])
					pubDone[u] = true
				}
				return
			}
			for i := 0; i < sp.Msgs; i++ {
				u := sp.uuid(p, i)
				if anyConc {
					vs.Observe("pubstart %s", u)
					pubStart[u] = vs.ObsCount()
				}
				if err := g.Publish("t", origs[u]); err != nil {
					vs.Fail("publish-error", "Publish(%s) on an open Pub/Sub failed: %v", u, err)
				}
				// Publish has returned: the value is the publisher's again, and it recycles it; what the
				// subscribers receive (now or on a later redelivery) is what was published
				origs[u].Payload = []byte("recycled by the publisher")
				origs[u].Metadata.Set("recycled", "yes")
				snapsAfter[u] = hx.Clone(origs[u])
				pubDone[u] = true
			}
		}()
	}
	vs.Quiesce()

	// ---- oracle at quiescence ---------------------------------------------------------------
	seen := map[*message.Message]bool{}
	for u, o := range origs {
		seen[o] = true
		if !pubDone[u] {
			vs.Fail("publish-hang", "Publish(%s) has not returned at quiescence (cfg %s)", u, sp.Cfg)
		}
		want := snaps[u]
		if snapsAfter[u] != nil {
			want = snapsAfter[u]
		}
		if !hx.SameContent(o, want) {
			vs.Fail("original-untouched", "publisher's original %q changed: metadata=%v", u, o.Metadata)
		}
		if vs.PeekClosed(o.Acked()) || vs.PeekClosed(o.Nacked()) {
			vs.Fail("original-untouched", "publisher's original %q was settled by a subscriber", u)
		}
	}
	for s := 0; s <= S; s++ {
		topicDecoy := s == S
		count := map[string]int{}
		for i, d := range deliveries[s] {
			if seen[d.msg] {
				vs.Fail("separate-copy", "subscription %d delivery %d of %q is not a separate message object", s, i, d.uuid)
			}
			seen[d.msg] = true
			if (d.uuid == "decoy") != topicDecoy {
				vs.Fail("topic-isolation", "subscription %d (decoy=%v) received %q from another topic", s, topicDecoy, d.uuid)
			}
			if d.attempt != count[d.uuid] {
				vs.Fail("internal", "attempt bookkeeping")
			}
			count[d.uuid]++
			if d.acked {
				if !vs.PeekClosed(d.msg.Context().Done()) {
					vs.Fail("context-cancelled-after-ack", "subscription %d: context of acked copy of %q (attempt %d) is still live at quiescence", s, d.uuid, d.attempt)
				}
			}
		}
		if topicDecoy {
			if sp.Decoy && count["decoy"] != 1 {
				vs.Fail("delivery", "decoy subscription received the decoy message %d times", count["decoy"])
			}
			continue
		}
		if !subOK[s] {
			vs.Fail("subscribe-hang", "Subscribe of subscription %d has not returned at quiescence", s)
			continue
		}
		want := sp.Subs[s].Nacks + 1
		for u := range origs {
			if u == "decoy" {
				continue
			}
			obligated := !sp.Subs[s].Concurrent || sp.Cfg.Persistent || subEnd[s] < pubStart[u]
			n := count[u]
			if n == 0 && !obligated {
				continue
			}
			if n == 0 {
				vs.Fail("delivery", "subscription %d existed when %q was published but never received it (cfg %s)", s, u, sp.Cfg)
			} else if n != want {
				vs.Fail("redelivery", "subscription %d (nacks %d times, then acks) received %q %d times, expected %d (cfg %s)", s, sp.Subs[s].Nacks, u, n, want, sp.Cfg)
			}
		}
	}
	order := ""
	for s := 0; s < S; s++ {
		for _, d := range deliveries[s] {
			order += fmt.Sprintf("%d:%s#%d ", s, d.uuid, d.attempt)
		}
	}
	vs.Note("%s", order)
	if err := g.Close(); err != nil {
		vs.Fail("close-error", "%v", err)
	}
}

// cancelScenario: three subscriptions exist, one message is published and the FIRST subscription is
// cancelled concurrently: the two that stay open must receive the message exactly once.
func cancelScenario(cfg hx.GCfg, c int) *explore.Scenario {
	return &explore.Scenario{Name: fmt.Sprintf("%s/cancel-during-dispatch", cfg), C: c, Body: func() {
		g := cfg.New()
		ctxA, cancelA := context.WithCancel(context.Background())
		counts := make([]int, 3)
		for s := 0; s < 3; s++ {
			s := s
			ctx := context.Background()
			if s == 0 {
				ctx = ctxA
			}
			ch, err := g.Subscribe(ctx, "t")
			if err != nil {
				vs.Fail("subscribe-error", "%v", err)
				return
			}
			go func() {
				for m := range ch {
					counts[s]++
					m.Ack()
				}
			}()
		}
		go func() {
			if err := g.Publish("t", hx.Msg("m0")); err != nil {
				vs.Fail("publish-error", "%v", err)
			}
		}()
		go cancelA()
		vs.Quiesce()
		for s := 1; s < 3; s++ {
			if counts[s] != 1 {
				vs.Fail("delivery", "subscription %d stayed open while another one was cancelled: it received the message %d times (cfg %s)", s, counts[s], cfg)
			}
		}
		if counts[0] > 1 {
			vs.Fail("redelivery", "the cancelled subscription received the message %d times", counts[0])
		}
		vs.Note("%v", counts)
		cancelA()
		g.Close()
	}}
}

func init() {
	for _, cfg := range hx.AllGCfg(0, 1) {
		cfg := cfg
		sc := cancelScenario(cfg, 1)
		reg.AddW("C04", sc.Name, reg.Quick, 15, func(t reg.Tier) *explore.Scenario {
			if t == reg.Thorough {
				return cancelScenario(cfg, 2)
			}
			return cancelScenario(cfg, 1)
		})
	}
	add := func(tier reg.Tier, w int, sp spec, cThorough int) {
		sc := scenario(sp)
		reg.AddW("C04", sc.Name, tier, w, func(t reg.Tier) *explore.Scenario {
			x := sp
			if t == reg.Thorough {
				x.C = cThorough
			}
			return scenario(x)
		})
	}
	for _, cfg := range hx.AllGCfg(0, 1) {
		add(reg.Quick, 1, spec{Cfg: cfg, Pubs: 1, Msgs: 1, Subs: []subSpec{{Nacks: 1, Mutate: true}}, C: -1}, -1)
		add(reg.Quick, 5, spec{Cfg: cfg, Pubs: 1, Msgs: 2, Subs: []subSpec{{Nacks: 1, Mutate: true}}, C: -1}, -1)
		add(reg.Quick, 10, spec{Cfg: cfg, Pubs: 1, Msgs: 1, Subs: []subSpec{{Nacks: 0}, {Nacks: 1, Mutate: true}}, C: -1}, -1)
		add(reg.Quick, 20, spec{Cfg: cfg, Pubs: 1, Msgs: 1, Subs: []subSpec{{Nacks: 1}, {Concurrent: true, Mutate: true}}, C: 2}, -1)
		add(reg.Quick, 20, spec{Cfg: cfg, Pubs: 2, Msgs: 1, Subs: []subSpec{{Nacks: 1, Mutate: true}}, C: 2}, -1)
		add(reg.Quick, 20, spec{Cfg: cfg, Pubs: 1, Msgs: 1, Subs: []subSpec{{Nacks: 0}}, C: 2, Decoy: true}, -1)
		add(reg.Quick, 2, spec{Cfg: cfg, Pubs: 1, Msgs: 1, EmptyMeta: true, Subs: []subSpec{{Nacks: 1, Mutate: true}}, C: -1}, -1)
		add(reg.Quick, 10, spec{Cfg: cfg, Pubs: 1, Msgs: 1, EmptyMeta: true, Subs: []subSpec{{Nacks: 0, Mutate: true}, {Nacks: 1, Mutate: true}}, C: -1}, -1)
		add(reg.Quick, 3, spec{Cfg: cfg, Pubs: 1, Msgs: 2, EmptyUUID: true, Subs: []subSpec{{Nacks: 1, Mutate: true}}, C: -1}, -1)
		add(reg.Quick, 3, spec{Cfg: cfg, Pubs: 1, Msgs: 1, EmptyUUID: true, Subs: []subSpec{{Nacks: 0}, {Concurrent: true}}, C: 1}, 2)
		add(reg.Quick, 3, spec{Cfg: cfg, Pubs: 1, Msgs: 1, Subs: []subSpec{{Nacks: 1, SafetyNet: true}}, C: 2}, -1)
		cb := 1 // two preemptions only where the blocking publisher keeps the space small
		if cfg.Blocking {
			cb = 2
		}
		add(reg.Quick, 20, spec{Cfg: cfg, Pubs: 1, Msgs: 2, Batch: true, Subs: []subSpec{{Nacks: 0}, {Concurrent: true}}, C: cb}, 2)
		add(reg.Thorough, 40, spec{Cfg: cfg, Pubs: 2, Msgs: 1, Subs: []subSpec{{Nacks: 2}, {Concurrent: true}}, C: 2}, 2)
		add(reg.Thorough, 40, spec{Cfg: cfg, Pubs: 1, Msgs: 2, Subs: []subSpec{{Nacks: 1, Mutate: true}, {Concurrent: true, Nacks: 1}}, C: 2}, 2)
	}
}
