// Package c06: Router.Close is graceful: it returns nil only when no handler invocation is in
// progress and none will start afterwards; it returns an error instead of hanging when handlers
// outlive CloseTimeout; concurrent Close calls all return; Run returns only after the close.
package c06

import (
	"context"
	"fmt"
	"strings"
	"time"

	"github.com/ThreeDotsLabs/watermill/message"

	"verif/explore"
	"verif/harness/hx"
	"verif/harness/reg"
	"verif/vs"
)

type spec struct {
	Handler string // instant | yield | short | long | blocked | panic | error (the last two end at once, with a panic / an error)
	N       int    // messages emitted by the subscriber
	Closers int
	Gated   bool // the subscriber starts emitting only after Running() (else immediately)
	// Ends: the handler's subscription ends before / while Close is called: "stop" = Handler.Stop() runs concurrently
	// with the closers, "subends" = the subscriber closes its channel right after handing out its last message
	Ends string
	// Early: the router has two handlers and the Close calls arrive while it is still subscribing them (inside the first
	// Subscribe call of Run\'s start-up)
	Early bool
	// EmptyTopic: the handler publishes to the empty topic (a topic like any other for a handler that has a publisher)
	EmptyTopic bool
	C          int
	DPORSec    float64
}

func (s spec) name() string {
	g := ""
	if s.Gated {
		g = "/gated"
	}
	if s.Ends != "" {
		g += "/" + s.Ends
	}
	if s.Early {
		g += "/close-during-startup"
	}
	if s.EmptyTopic {
		g += "/empty-publish-topic"
	}
	return fmt.Sprintf("script/%s/N%d/closers%d%s", s.Handler, s.N, s.Closers, g)
}

const closeTimeout = 30 * time.Second

func scenario(sp spec) *explore.Scenario {
	return &explore.Scenario{Name: sp.name(), C: sp.C, DataOnly: sp.C < 0,
		Body:  func() { body(sp) },
		Check: func(r *vs.Result) []vs.Failure { return checkLog(sp, r.Obs) },
	}
}

// obsPub makes the Close call of the handler's publisher an observation.
type obsPub struct{ *hx.ScriptPub }

func (p obsPub) Close() error {
	vs.Observe("pubclose")
	return p.ScriptPub.Close()
}

func closedNow(ch <-chan struct{}) bool {
	select {
	case <-ch:
		return true
	default:
		return false
	}
}

func body(sp spec) {
	script := map[string][]*message.Message{}
	for i := 0; i < sp.N; i++ {
		script["in"] = append(script["in"], hx.Msg(fmt.Sprintf("m%d", i)))
	}
	sub := hx.NewScriptSub("sub", script)
	if sp.Gated {
		sub.Gate = make(chan struct{})
	}
	if sp.Ends == "subends" {
		sub.InFlight, sub.EndAfterScript = true, true
	}
	pub := hx.NewScriptPub("pub")
	r, err := message.NewRouter(message.RouterConfig{CloseTimeout: closeTimeout}, nil)
	if err != nil {
		vs.Fail("setup", "%v", err)
		return
	}
	never := make(chan struct{})
	ptopic := "out"
	if sp.EmptyTopic {
		ptopic = ""
	}
	hnd := r.AddHandler("h", "in", sub, ptopic, obsPub{pub}, func(m *message.Message) ([]*message.Message, error) {
		vs.Observe("start %s", m.UUID)
		switch sp.Handler {
		case "yield":
			vs.Yield()
		case "short":
			time.Sleep(time.Second)
		case "long":
			time.Sleep(2 * closeTimeout)
		case "blocked":
			<-never
		}
		vs.Observe("end %s", m.UUID)
		switch sp.Handler {
		case "panic":
			panic("handler panic")
		case "error":
			return nil, hx.ErrHandler
		}
		return hx.Outputs(m, 1), nil
	})
	var wg vs.WaitGroup
	startClosers := func() {
		if sp.Ends == "stop" {
			wg.Add(1)
			go func() {
				defer wg.Done()
				hnd.Stop()
			}()
		}
		for i := 0; i < sp.Closers; i++ {
			i := i
			wg.Add(1)
			go func() {
				defer wg.Done()
				err := r.Close()
				// settlement of everything the subscriber handed out, read through visible polls
				st := ""
				for _, d := range sub.Snapshot() {
					s := "unsettled"
					if closedNow(d.Msg.Acked()) {
						s = "acked"
					} else if closedNow(d.Msg.Nacked()) {
						s = "nacked"
					}
					st += d.UUID + "=" + s + ","
				}
				e := "nil"
				if err != nil {
					e = "err"
				}
				// (also: how often the handler's publisher and subscriber had been closed at that instant)
				vs.Observe("close %d %s pc%d sc%d [%s]", i, e, pub.CloseCalls, sub.CloseCalls, st)
			}()
		}
	}
	if sp.Early {
		r.AddNoPublisherHandler("h2", "in2", sub, func(m *message.Message) error { return nil })
		sub.OnSubscribe = func(call int) {
			if call == 0 {
				startClosers()
				time.Sleep(time.Millisecond) // a slow Subscribe: the Close calls get as far as they can meanwhile
			}
		}
	}
	go func() {
		err := r.Run(context.Background())
		vs.Observe("run %v", err)
	}()
	<-r.Running()
	if sp.Gated {
		sub.Open()
	}
	if !sp.Early {
		startClosers()
	}
	wg.Wait() // hang = a Close call that never returns
	vs.Quiesce()
	vs.Observe("final subClose=%d pubClose=%d", sub.CloseCalls, pub.CloseCalls)
}

// checkLog evaluates the property on the observation log of one execution.
func checkLog(sp spec, obs []string) []vs.Failure {
	var fs []vs.Failure
	fail := func(clause, format string, a ...any) {
		fs = append(fs, vs.Failure{Clause: clause, Msg: fmt.Sprintf(format, a...) + " | log: " + strings.Join(obs, " ; ")})
	}
	started, ended := map[string]bool{}, map[string]bool{}
	closedNil := false
	pubClosed := false // the handler's publisher has been told to close (an observation of its own: ordered with the others)
	closes, runs := 0, 0
	slow := sp.Handler == "long" || sp.Handler == "blocked"
	for _, o := range obs {
		f := strings.Fields(o)
		switch f[0] {
		case "start":
			if closedNil {
				fail("no-start-after-close", "handler invocation for %s started after a Close call had returned nil", f[1])
			}
			started[f[1]] = true
		case "end":
			ended[f[1]] = true
		case "pubclose":
			pubClosed = true
		case "close":
			closes++
			inProgress := []string{}
			for u := range started {
				if !ended[u] {
					inProgress = append(inProgress, u)
				}
			}
			if f[2] == "nil" {
				closedNil = true
				if len(inProgress) > 0 {
					fail("no-handler-in-progress", "Close returned nil while the handler was still running for %v", inProgress)
				}
				// settlement snapshot
				// a Close that returns nil has completed: the handler's publisher is closed by then, not some time later
				// (not applied where the handler had ended by itself: its publisher is closed when its run loop ends)
				if (f[3] == "pc0" || !pubClosed) && sp.Ends == "" && f[3] != "pc1x" {
					fail("closes-publisher", "Close returned nil before the handler's publisher was closed")
				}
				snap := strings.Trim(strings.Join(f[5:], ""), "[]")
				for _, kv := range strings.Split(snap, ",") {
					if kv == "" {
						continue
					}
					p := strings.SplitN(kv, "=", 2)
					u, st := p[0], p[1]
					if ended[u] && st == "unsettled" {
						fail("handled-and-settled", "Close returned nil: %s was handled but is not settled", u)
					}
					if !started[u] && st == "acked" {
						fail("never-handled-never-acked", "Close returned nil: %s was never handled but is acked", u)
					}
				}
			} else if len(inProgress) == 0 && !slow {
				fail("close-error", "Close returned an error although no handler outlived the timeout")
			}
		case "run":
			runs++
			if f[1] != "<nil>" {
				fail("run-result", "Run returned %s", strings.Join(f[1:], " "))
			}
			if closes == 0 {
				// Run may return before Close returns to its caller, but not while handlers are awaited
				for u := range started {
					if !ended[u] && !slow {
						fail("run-after-close", "Run returned while the handler was still running for %s and no Close had finished", u)
					}
				}
			}
		case "final":
			if closes != sp.Closers {
				fail("close-returns", "%d of %d Close calls returned", closes, sp.Closers)
			}
			if runs != 1 {
				fail("run-returns", "Run did not return after Close")
			}
			// (a handler that was stopped, or whose subscription ended, is no longer one of the router's handlers when
			// Close runs: the router leaves its subscriber alone, and the clause does not apply)
			if strings.Contains(o, "subClose=0") && sp.Ends == "" {
				fail("closes-subscriber", "Router.Close on a running router never called the handler's subscriber Close()")
			}
			if strings.Contains(o, "pubClose=0") {
				fail("closes-publisher", "Router.Close on a running router never called the handler's publisher Close()")
			}
		}
	}
	return fs
}

// GoChannel-backed variant: the handler consumes from and publishes to a real GoChannel; a message is
// published concurrently with Close.
func gochannelScenario(handler string, c int) *explore.Scenario {
	sp := spec{Handler: handler, N: 1, Closers: 1}
	return &explore.Scenario{Name: fmt.Sprintf("gochannel/%s/closers1", handler), C: c, Opts: vs.Options{MaxSteps: 60000},
		Check: func(r *vs.Result) []vs.Failure {
			var fs []vs.Failure
			for _, f := range checkLog(sp, r.Obs) {
				// the Pub/Sub here is not scripted: its Close() calls are not counted
				if f.Clause != "closes-subscriber" && f.Clause != "closes-publisher" {
					fs = append(fs, f)
				}
			}
			return fs
		},
		Body: func() {
			g := hx.GCfg{}.New()
			r, err := message.NewRouter(message.RouterConfig{CloseTimeout: closeTimeout}, nil)
			if err != nil {
				vs.Fail("setup", "%v", err)
				return
			}
			var delivered []*message.Message
			r.AddHandler("h", "in", g, "out", g, func(m *message.Message) ([]*message.Message, error) {
				delivered = append(delivered, m)
				vs.Observe("start %s", m.UUID)
				switch handler {
				case "yield":
					vs.Yield()
				case "short":
					time.Sleep(time.Second)
				}
				vs.Observe("end %s", m.UUID)
				return hx.Outputs(m, 1), nil
			})
			go func() {
				err := r.Run(context.Background())
				vs.Observe("run %v", err)
			}()
			<-r.Running()
			var wg vs.WaitGroup
			wg.Add(2)
			go func() {
				defer wg.Done()
				g.Publish("in", hx.Msg("m0")) // may fail once the Pub/Sub is closed by the router: fine
			}()
			go func() {
				defer wg.Done()
				err := r.Close()
				st := ""
				for _, m := range delivered {
					s := "unsettled"
					if closedNow(m.Acked()) {
						s = "acked"
					} else if closedNow(m.Nacked()) {
						s = "nacked"
					}
					st += m.UUID + "=" + s + ","
				}
				e := "nil"
				if err != nil {
					e = "err"
				}
				vs.Observe("close 0 %s pc1x sc1 [%s]", e, st) // (the Pub/Sub here is not scripted: its Close() calls are not counted)
			}()
			wg.Wait()
			vs.Quiesce()
			vs.Observe("final subClose=1 pubClose=1")
		}}
}

func init() {
	for _, h := range []string{"instant", "yield", "short"} {
		h := h
		sc := gochannelScenario(h, 0)
		reg.AddW("C06", sc.Name, reg.Quick, 25, func(t reg.Tier) *explore.Scenario {
			if t == reg.Thorough {
				return gochannelScenario(h, 1)
			}
			return gochannelScenario(h, 0)
		})
	}
	add := func(tier reg.Tier, w int, sp spec, ct int, dporT float64) {
		sc := scenario(sp)
		reg.AddW("C06", sc.Name, tier, w, func(t reg.Tier) *explore.Scenario {
			x := sp
			if t == reg.Thorough {
				x.C = ct
				x.DPORSec = dporT
			}
			return scenario(x)
		})
	}
	for _, h := range []string{"instant", "yield", "short", "long", "blocked"} {
		t1 := reg.Quick
		if h == "yield" { // in quick the gated variant covers the yielding handler with one closer
			t1 = reg.Thorough
		}
		add(t1, 10, spec{Handler: h, N: 1, Closers: 1, C: 1}, 2, 0)
		add(reg.Quick, 20, spec{Handler: h, N: 1, Closers: 2, C: 0}, 1, 0)
		add(reg.Thorough, 40, spec{Handler: h, N: 2, Closers: 1, C: 1}, 2, 0)
	}
	add(reg.Quick, 10, spec{Handler: "yield", N: 1, Closers: 1, Gated: true, C: 1}, 2, 0)
	add(reg.Quick, 5, spec{Handler: "instant", N: 1, Closers: 1, EmptyTopic: true, C: 0}, 1, 0)
	// Close arriving inside the start-up (two handlers, a slow first Subscribe): with the start-up concurrent to the Close
	// calls even the search without preemptions exceeds a million executions, so the quick tier runs the one schedule in
	// which the Close calls get as far as they can during the slow Subscribe, and the thorough tier the bounded search
	add(reg.Quick, 1, spec{Handler: "instant", N: 1, Closers: 2, Early: true, C: -1}, 0, 0)
	// the only handler's subscription ends while its invocation runs: the router then closes itself, and a Close
	// call that returns nil still means that no invocation is in progress
	for _, ends := range []string{"stop", "subends"} {
		for _, h := range []string{"yield", "short", "blocked"} {
			c := 1
			if ends == "stop" { // one more actor: one preemption in thorough only
				c = 0
			}
			add(reg.Quick, 10, spec{Handler: h, N: 1, Closers: 1, Ends: ends, C: c}, c+1, 0)
		}
	}
	// invocations that end with a panic or an error are settled (Nack) before Close returns nil, too
	add(reg.Quick, 10, spec{Handler: "panic", N: 1, Closers: 1, C: 1}, 2, 0)
	add(reg.Thorough, 10, spec{Handler: "error", N: 1, Closers: 1, C: 1}, 2, 0)
}
