// Package reg is the registry of scenario instances, grouped by property and tier.
package reg

import (
	"sort"

	"verif/explore"
)

type Tier int

const (
	Quick Tier = iota
	Thorough
)

// Instance is one scenario (configuration x behaviour script) of a property.
type Instance struct {
	Prop string
	Name string
	Tier Tier // lowest tier that runs it
	Make func(t Tier) *explore.Scenario
	// Weight is a rough relative cost used to balance the workers.
	Weight int
}

var all []Instance

func Add(prop, name string, tier Tier, mk func(t Tier) *explore.Scenario) {
	all = append(all, Instance{Prop: prop, Name: name, Tier: tier, Make: mk, Weight: 1})
}

func AddW(prop, name string, tier Tier, weight int, mk func(t Tier) *explore.Scenario) {
	all = append(all, Instance{Prop: prop, Name: name, Tier: tier, Make: mk, Weight: weight})
}

// For returns the instances of a property that run in the given tier, sorted by name.
func For(prop string, tier Tier) []Instance {
	var out []Instance
	for _, i := range all {
		if i.Prop == prop && i.Tier <= tier {
			out = append(out, i)
		}
	}
	sort.Slice(out, func(a, b int) bool { return out[a].Name < out[b].Name })
	return out
}

func Find(prop, name string) *Instance {
	for i := range all {
		if all[i].Prop == prop && all[i].Name == name {
			return &all[i]
		}
	}
	return nil
}

func Props() []string {
	m := map[string]bool{}
	for _, i := range all {
		m[i.Prop] = true
	}
	var out []string
	for p := range m {
		out = append(out, p)
	}
	sort.Strings(out)
	return out
}
