// Package c14: Deduplicator lets exactly one message per key through per window.
package c14

import (
	"bytes"
	"context"
	"fmt"
	"time"

	"github.com/ThreeDotsLabs/watermill/message"
	"github.com/ThreeDotsLabs/watermill/message/router/middleware"

	"verif/explore"
	"verif/harness/hx"
	"verif/harness/reg"
	"verif/vs"
)

const window = 100 * time.Millisecond

func newDedup() *middleware.Deduplicator {
	kr, err := middleware.NewMapExpiringKeyRepository(window)
	if err != nil {
		panic(err)
	}
	return &middleware.Deduplicator{KeyFactory: middleware.NewMessageHasherSHA256(64), Repository: kr, Timeout: time.Second}
}

// the ways a Deduplicator is configured: everything given; the zero value and the nil pointer (every default:
// Adler-32 hasher over the whole payload, in-memory repository with a one-minute window)
var configurations = []string{"explicit", "zero-value", "nil"}

func dedupFor(cfg int) *middleware.Deduplicator {
	switch configurations[cfg] {
	case "zero-value":
		return &middleware.Deduplicator{}
	case "nil":
		return nil
	}
	return newDedup()
}

// ---- (a) concurrent arrivals ------------------------------------------------------------------------------

// payloads[i] is the payload presented by goroutine i (equal payload = same key)
func concScenario(payloads []string, decorator bool, c int, dpor bool) *explore.Scenario {
	name := "conc/middleware/"
	if decorator {
		name = "conc/decorator/"
	}
	for _, p := range payloads {
		name += p
	}
	return &explore.Scenario{Name: name, C: c, DPOR: dpor, Body: func() {
		d := dedupFor(vs.Choose(len(configurations), 0, "configuration"))
		invoked := map[string]int{}
		passed := make([]bool, len(payloads))
		inner := hx.NewScriptPub("inner")
		var wg vs.WaitGroup
		if !decorator {
			h := d.Middleware(func(m *message.Message) ([]*message.Message, error) {
				invoked[string(m.Payload)]++
				return hx.Outputs(m, 1), nil
			})
			for i, p := range payloads {
				i, p := i, p
				wg.Add(1)
				go func() {
					defer wg.Done()
					out, err := h(message.NewMessage(fmt.Sprintf("u%d", i), []byte(p)))
					if err != nil {
						vs.Fail("no-error", "deduplicating middleware returned %v", err)
					}
					passed[i] = len(out) == 1
				}()
			}
		} else {
			dec, err := d.PublisherDecorator()(inner)
			if err != nil {
				vs.Fail("setup", "%v", err)
				return
			}
			for i, p := range payloads {
				i, p := i, p
				wg.Add(1)
				go func() {
					defer wg.Done()
					m := message.NewMessage(fmt.Sprintf("u%d", i), []byte(p))
					if err := dec.Publish("t", m); err != nil {
						vs.Fail("no-error", "deduplicating decorator returned %v", err)
					}
					// a dropped duplicate is acknowledged by the decorator
					passed[i] = !vs.PeekClosed(m.Acked())
				}()
			}
		}
		wg.Wait()
		if decorator {
			for _, c := range inner.Snapshot() {
				for _, m := range c.Msgs {
					invoked[string(m.Payload)]++
				}
			}
		}
		perKey := map[string]int{}
		for i, p := range payloads {
			if passed[i] {
				perKey[p]++
			}
		}
		for _, p := range payloads {
			if invoked[p] != 1 {
				vs.Fail("exactly-one-per-key", "payload %q reached the handler/publisher %d times (arrivals %v)", p, invoked[p], payloads)
			}
			if perKey[p] != 1 {
				vs.Fail("exactly-one-per-key", "payload %q: %d of its arrivals were let through (arrivals %v)", p, perKey[p], payloads)
			}
		}
		vs.Note("%v", passed)
	}}
}

// ---- (a') batches through the publisher decorator ---------------------------------------------------------

// Sequential Publish calls with batches over the keys {A,B,C}: every batch shape up to length 3, two calls.
func batchScenario(maxLen int) *explore.Scenario {
	return &explore.Scenario{Name: fmt.Sprintf("batch/decorator/len%d", maxLen), C: -1, DataOnly: true, Body: func() {
		d := dedupFor(vs.Choose(len(configurations), 0, "configuration"))
		inner := hx.NewScriptPub("inner")
		dec, err := d.PublisherDecorator()(inner)
		if err != nil {
			vs.Fail("setup", "%v", err)
			return
		}
		keys := []string{"A", "B", "C"}
		seen := map[string]bool{}
		desc := ""
		n := 0
		for call := 0; call < 2; call++ {
			l := 1 + vs.Choose(maxLen, 0, "batch length")
			var batch []*message.Message
			var wantThrough []string
			for i := 0; i < l; i++ {
				k := keys[vs.Choose(len(keys), 0, "key")]
				m := message.NewMessage(fmt.Sprintf("u%d", n), []byte(k))
				n++
				batch = append(batch, m)
				desc += k
				if !seen[k] {
					seen[k] = true
					wantThrough = append(wantThrough, m.UUID)
				}
			}
			desc += " "
			before := len(inner.Snapshot())
			if err := dec.Publish("t", batch...); err != nil {
				vs.Fail("no-error", "batches [%s]: deduplicating decorator returned %v", desc, err)
			}
			var got []string
			for _, c := range inner.Snapshot()[before:] {
				if c.Topic != "t" {
					vs.Fail("batch", "batches [%s]: published to topic %q", desc, c.Topic)
				}
				for _, m := range c.Msgs {
					got = append(got, m.UUID)
				}
			}
			if fmt.Sprint(got) != fmt.Sprint(wantThrough) {
				vs.Fail("exactly-one-per-key", "batches [%s]: call %d passed %v to the wrapped publisher, expected the first arrival of each new key in order: %v", desc, call, got, wantThrough)
			}
			for _, m := range batch {
				through := false
				for _, u := range wantThrough {
					through = through || u == m.UUID
				}
				if acked := vs.PeekClosed(m.Acked()); acked == through {
					vs.Fail("duplicates-acked", "batches [%s]: message %s (key %s) through=%v acked=%v", desc, m.UUID, m.Payload, through, acked)
				}
			}
		}
		vs.Note("%s", desc)
	}}
}

// ---- (a'') one Deduplicator, several wrappings ---------------------------------------------------------------

// The same *Deduplicator wraps two handlers and a publisher (router.AddMiddleware(d.Middleware) does the first for
// every handler): a key let through by one wrapping is known to the others. (With the nil receiver every wrapping
// builds its own defaults, so nothing is shared there and nothing is required.)
func sharedScenario() *explore.Scenario {
	return &explore.Scenario{Name: "one-deduplicator-several-wrappings", C: -1, DataOnly: true, Body: func() {
		cfg := vs.Choose(2, 0, "configuration") // explicit | zero-value
		d := dedupFor(cfg)
		count := 0
		h1 := d.Middleware(func(m *message.Message) ([]*message.Message, error) { count++; return nil, nil })
		h2 := d.Middleware(func(m *message.Message) ([]*message.Message, error) { count++; return nil, nil })
		inner := hx.NewScriptPub("inner")
		dec, err := d.PublisherDecorator()(inner)
		if err != nil {
			vs.Fail("setup", "%v", err)
			return
		}
		order := vs.Choose(3, 0, "which wrapping sees the key first")
		// the first arrival may carry a context that has already ended (a cancelled sender, a deadline in the past):
		// with the in-memory repository that changes nothing - it is the arrival that gets through
		firstCtx := vs.Choose(3, 0, "context of the first arrival")
		send := func(k int) {
			m := message.NewMessage(fmt.Sprintf("u%d", k), []byte("same payload"))
			if k == 0 && firstCtx > 0 {
				ctx, cancel := context.WithCancel(context.Background())
				if firstCtx == 2 {
					ctx, cancel = context.WithDeadline(context.Background(), vs.Now().Add(-time.Second))
				}
				cancel()
				m.SetContext(ctx)
			}
			switch (order + k) % 3 {
			case 0:
				h1(m)
			case 1:
				h2(m)
			default:
				dec.Publish("t", m)
			}
		}
		for k := 0; k < 3; k++ {
			send(k)
		}
		through := count
		for _, c := range inner.Snapshot() {
			through += len(c.Msgs)
		}
		if through != 1 {
			vs.Fail("exactly-one-per-key", "one Deduplicator (%s configuration) wrapping two handlers and a publisher (context of the first arrival: %s): the same key got through %d times", configurations[cfg], []string{"live", "cancelled", "deadline passed"}[firstCtx], through)
		}
		vs.Note("cfg=%s order=%d through=%d", configurations[cfg], order, through)
	}}
}

// ---- (b) window ------------------------------------------------------------------------------------------

var deltas = []time.Duration{0, window / 2, window - time.Millisecond, window + time.Millisecond, window*3/2 - time.Millisecond,
	window*3/2 + time.Millisecond, 2*window + time.Millisecond, 5 * window}

func windowScenario(policy vs.Policy, f int) *explore.Scenario {
	name := "window/quiescent"
	if policy == vs.Nondet {
		name = fmt.Sprintf("window/nondet-f%d", f)
	}
	c := 0
	if policy == vs.Nondet {
		c = 1 // an arrival may fall between two critical sections of a clean-up sweep
	}
	return &explore.Scenario{Name: name, C: c, F: f, DataOnly: policy == vs.Quiescent, Opts: vs.Options{Time: policy, TimeHorizon: int64(10 * time.Second)}, Body: func() {
		d := newDedup()
		calls := 0
		h := d.Middleware(func(m *message.Message) ([]*message.Message, error) { calls++; return nil, nil })
		offset := []time.Duration{0, 30 * time.Millisecond, 49 * time.Millisecond, 51 * time.Millisecond}[vs.Choose(4, 0, "first arrival offset")]
		delta := deltas[vs.Choose(len(deltas), 0, "gap")]
		time.Sleep(offset)
		firstStart := vs.VirtualNow()
		h(message.NewMessage("a", []byte("same")))
		other := 0
		hOther := d.Middleware(func(m *message.Message) ([]*message.Message, error) { other++; return nil, nil })
		hOther(message.NewMessage("x", []byte("different")))
		if other != 1 {
			vs.Fail("keys-independent", "a different key was suppressed")
		}
		t0 := vs.VirtualNow()
		if delta > 0 {
			time.Sleep(delta)
		}
		gap := vs.VirtualNow() - t0
		h(message.NewMessage("b", []byte("same")))
		// conservative time stamps: the key was recorded somewhere inside the first call and is looked up somewhere
		// inside the second one (with the nondeterministic clock time may pass inside a call): only if even the
		// longest possible distance is shorter than the window must the repeat still be known
		span := vs.VirtualNow() - firstStart
		accepted := calls == 2
		switch {
		case span < window && accepted:
			vs.Fail("remembered-for-window", "repeat at most %v after the first arrival (window %v, first arrival at +%v) was accepted", span, window, offset)
		case gap > window*3/2 && policy == vs.Quiescent && !accepted:
			vs.Fail("accepted-after-expiry", "repeat after %v (window %v, clean-up every %v, first arrival at +%v) still dropped", gap, window, window/2, offset)
		}
		vs.Note("offset=%v gap=%v accepted=%v", offset, gap, accepted)
	}}
}

// A stream of one key: the window is fixed, it runs from the arrival that was accepted; arrivals that are dropped do
// not prolong it (reference: a repeat sooner than one window after the last accepted arrival is dropped, one later
// than a window and a half - window plus one clean-up period - is accepted, in between either, and the reference follows
// what the implementation decided).
func streamScenario() *explore.Scenario {
	return &explore.Scenario{Name: "window/stream", C: 0, DataOnly: true, Opts: vs.Options{Time: vs.Quiescent, TimeHorizon: int64(10 * time.Second)}, Body: func() {
		d := newDedup()
		calls := 0
		h := d.Middleware(func(m *message.Message) ([]*message.Message, error) { calls++; return nil, nil })
		time.Sleep([]time.Duration{0, 30 * time.Millisecond}[vs.Choose(2, 0, "first arrival offset")])
		n := 3 + vs.Choose(2, 0, "arrivals")
		gaps := []time.Duration{window * 3 / 5, window * 6 / 5, window * 8 / 5}
		lastAccepted := time.Duration(-1)
		hist := ""
		for i := 0; i < n; i++ {
			if i > 0 {
				time.Sleep(gaps[vs.Choose(len(gaps), 0, "gap")])
			}
			t := vs.VirtualNow()
			before := calls
			h(message.NewMessage(fmt.Sprintf("u%d", i), []byte("same")))
			accepted := calls == before+1
			hist += fmt.Sprintf("+%v:%v ", t, accepted)
			switch {
			case lastAccepted < 0:
				if !accepted {
					vs.Fail("first-accepted", "the first arrival of a key was dropped (%s)", hist)
				}
			case t-lastAccepted < window && accepted:
				vs.Fail("remembered-for-window", "arrivals of one key (time:accepted) %s: accepted %v after the last accepted one, window %v", hist, t-lastAccepted, window)
			case t-lastAccepted > window*3/2 && !accepted:
				vs.Fail("accepted-after-expiry", "arrivals of one key (time:accepted) %s: still dropped %v after the last accepted one (window %v, clean-up every %v): dropped repeats must not prolong the window", hist, t-lastAccepted, window, window/2)
			}
			if accepted {
				lastAccepted = t
			}
		}
		vs.Note("%s", hist)
	}}
}

// ---- (c) hashers -------------------------------------------------------------------------------------------

func hasherScenario() *explore.Scenario {
	return &explore.Scenario{Name: "hashers", C: -1, DataOnly: true, Body: func() {
		limit := []int64{1, 64, 65, 128}[vs.Choose(4, 0, "read limit")]
		eff := limit
		if eff < 64 {
			eff = 64
		}
		sha := middleware.NewMessageHasherSHA256(limit)
		adler := middleware.NewMessageHasherAdler32(limit)
		key := func(h middleware.MessageHasher, p []byte) string {
			k, err := h(message.NewMessage("u", p))
			if err != nil {
				vs.Fail("hasher-error", "%v", err)
			}
			return k
		}
		n := 0
		for length := 0; length <= 130; length++ {
			base := bytes.Repeat([]byte{'a'}, length)
			// (1) payloads equal up to the limit give equal keys: vary every position beyond the limit
			for pos := int(eff); pos < length; pos++ {
				alt := append([]byte{}, base...)
				alt[pos] = 'b'
				n++
				if key(sha, base) != key(sha, alt) || key(adler, base) != key(adler, alt) {
					vs.Fail("equal-up-to-limit", "limit %d: payloads of length %d differing only at position %d (beyond the limit) have different keys", limit, length, pos)
				}
			}
			// also a longer payload with the same prefix
			if int64(length) >= eff {
				longer := append(append([]byte{}, base...), 'z')
				n++
				if key(sha, base) != key(sha, longer) || key(adler, base) != key(adler, longer) {
					vs.Fail("equal-up-to-limit", "limit %d: payload of length %d and its extension have different keys", limit, length)
				}
			}
			// (2) SHA-256: a difference within the limit gives different keys
			for pos := 0; pos < length && pos < int(eff); pos++ {
				alt := append([]byte{}, base...)
				alt[pos] = 'b'
				n++
				if key(sha, base) == key(sha, alt) {
					vs.Fail("sha256-differs-within-limit", "limit %d: payloads of length %d differing at position %d (within the limit) have the same SHA-256 key", limit, length, pos)
				}
			}
			// (3) the key is a function of the payload's bytes, not of the buffer it lives in: the same bytes cut out of
			// a larger buffer (spare capacity filled with other data, e.g. a frame of a read buffer) give the same key
			for _, junk := range []byte{'x', 0} {
				buf := bytes.Repeat([]byte{junk}, 256)
				copy(buf, base)
				framed := buf[:length]
				n++
				if key(sha, base) != key(sha, framed) || key(adler, base) != key(adler, framed) {
					vs.Fail("key-of-bytes-only", "limit %d: a payload of length %d and the same bytes inside a 256-byte buffer (capacity %d) have different keys", limit, length, cap(framed))
				}
			}
			if int64(length) < eff && length > 0 {
				n++
				if key(sha, base) == key(sha, base[:length-1]) {
					vs.Fail("sha256-differs-within-limit", "limit %d: payload of length %d and its prefix have the same SHA-256 key", limit, length)
				}
			}
		}
		// the metadata-field hasher: equal field values are one key; a message without the field has no key at
		// all, it is not a duplicate of anything and must not be dropped as a success
		{
			d := &middleware.Deduplicator{KeyFactory: middleware.NewMessageHasherFromMetadataField("dedup-key")}
			handled := map[string]int{}
			h := d.Middleware(func(m *message.Message) ([]*message.Message, error) { handled[m.UUID]++; return nil, nil })
			mk := func(uuid, key string) *message.Message {
				m := message.NewMessage(uuid, []byte("payload "+uuid))
				if key != "" {
					m.Metadata.Set("dedup-key", key)
				}
				return m
			}
			for _, m := range []*message.Message{mk("a", "k1"), mk("b", "k1"), mk("c", "k2"), mk("d", ""), mk("e", "")} {
				_, err := h(m)
				if m.Metadata.Get("dedup-key") == "" && err == nil && handled[m.UUID] == 0 {
					vs.Fail("no-key-is-not-a-duplicate", "message %s has no deduplication key (the hasher failed) and was dropped as a success", m.UUID)
				}
			}
			if handled["a"] != 1 || handled["b"] != 0 || handled["c"] != 1 {
				vs.Fail("exactly-one-per-key", "metadata-field hasher: handled %v for keys a:k1 b:k1 c:k2", handled)
			}
		}
		vs.Note("limit=%d pairs=%d", limit, n)
	}}
}

func init() {
	add := func(tier reg.Tier, w int, mk func(t reg.Tier) *explore.Scenario) {
		reg.AddW("C14", mk(reg.Quick).Name, tier, w, mk)
	}
	for _, dec := range []bool{false, true} {
		dec := dec
		for _, ps := range [][]string{{"A", "A"}, {"A", "B"}, {"A", "A", "A"}, {"A", "A", "B"}} {
			ps := ps
			add(reg.Quick, len(ps)*5, func(t reg.Tier) *explore.Scenario { return concScenario(ps, dec, 2, true) })
		}
		add(reg.Thorough, 40, func(t reg.Tier) *explore.Scenario { return concScenario([]string{"A", "A", "B", "B"}, dec, 2, true) })
	}
	add(reg.Quick, 5, func(t reg.Tier) *explore.Scenario { return batchScenario(3) })
	add(reg.Quick, 2, func(t reg.Tier) *explore.Scenario { return sharedScenario() })
	add(reg.Thorough, 20, func(t reg.Tier) *explore.Scenario { return batchScenario(4) })
	add(reg.Quick, 5, func(t reg.Tier) *explore.Scenario { return windowScenario(vs.Quiescent, 0) })
	add(reg.Quick, 5, func(t reg.Tier) *explore.Scenario { return streamScenario() })
	add(reg.Quick, 20, func(t reg.Tier) *explore.Scenario {
		if t == reg.Thorough {
			return windowScenario(vs.Nondet, 2)
		}
		return windowScenario(vs.Nondet, 1)
	})
	add(reg.Quick, 5, func(t reg.Tier) *explore.Scenario { return hasherScenario() })
}
