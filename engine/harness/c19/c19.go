// Package c19: simple middlewares change only what they document and only during the call.
package c19

import (
	"context"
	stderrors "errors"
	"fmt"
	"time"

	"github.com/ThreeDotsLabs/watermill/components/delay"
	"github.com/ThreeDotsLabs/watermill/message"
	"github.com/ThreeDotsLabs/watermill/message/router/middleware"
	"github.com/pkg/errors"
	"github.com/sony/gobreaker"

	"verif/explore"
	"verif/harness/hx"
	"verif/harness/reg"
	"verif/vs"
)

var (
	listed = stderrors.New("ignorable failure")
	plain  = stderrors.New("plain failure")
)

// handler results
var resultNames = []string{"out0", "out1", "out2", "out2+cid", "out2+empty-cid", "err-plain", "err-wrapped-plain", "err-wrapped-listed", "err-listed+out", "err-rootless+out", "panic-value", "panic-error", "panic-nil"}

type outcome struct {
	outs     []*message.Message
	err      error
	panicked bool
	panicVal any
}

func produce(kind string, m *message.Message) ([]*message.Message, error) {
	switch kind {
	case "out0":
		return nil, nil
	case "out1":
		return hx.Outputs(m, 1), nil
	case "out2":
		return hx.Outputs(m, 2), nil
	case "out2+cid":
		o := hx.Outputs(m, 2)
		o[0].Metadata.Set(middleware.CorrelationIDMetadataKey, "own-id")
		return o, nil
	case "out2+empty-cid": // an output that carries the correlation-id key with an empty value lacks a correlation id
		o := hx.Outputs(m, 2)
		o[1].Metadata.Set(middleware.CorrelationIDMetadataKey, "")
		return o, nil
	case "err-plain":
		return nil, plain
	case "err-wrapped-plain": // an annotated error that is not on any list: it comes back as it is, annotation included
		return nil, errors.Wrap(plain, "while storing the order")
	case "err-wrapped-listed":
		return nil, errors.Wrap(listed, "while doing something")
	case "err-listed+out":
		return hx.Outputs(m, 1), listed
	case "err-rootless+out": // an application error in the "causer" convention with nothing underneath
		return hx.Outputs(m, 1), &stepError{step: "validate"}
	case "panic-value":
		panic("boom value")
	case "panic-error":
		panic(plain)
	case "panic-nil":
		panic(nil)
	}
	return nil, nil
}

// stepError follows the Cause()/Unwrap() conventions and has no underlying error.
type stepError struct{ step string }

func (e *stepError) Error() string { return "step " + e.step + " failed" }
func (e *stepError) Cause() error  { return nil }
func (e *stepError) Unwrap() error { return nil }

// isListed: the error, or what it wraps, is the listed one (an error with nothing underneath is its own root).
func isListed(err error) bool {
	if err == nil {
		return false
	}
	root := errors.Cause(err)
	if root == nil {
		root = err
	}
	return root.Error() == listed.Error()
}

// call runs f and captures an escaping panic.
func call(f message.HandlerFunc, m *message.Message) (o outcome) {
	defer func() {
		if r := recover(); r != nil {
			o.panicked, o.panicVal = true, r
		}
	}()
	o.outs, o.err = f(m)
	return
}

var mwNames = []string{"Timeout", "CorrelationID", "Recoverer", "IgnoreErrors", "InstantAck", "Throttle", "DelayOnError", "CircuitBreaker"}

func mk(name string) message.HandlerMiddleware {
	switch name {
	case "Timeout":
		return middleware.Timeout(time.Second)
	case "CorrelationID":
		return middleware.CorrelationID
	case "Recoverer":
		return middleware.Recoverer
	case "IgnoreErrors":
		return middleware.NewIgnoreErrors([]error{listed}).Middleware
	case "InstantAck":
		return middleware.InstantAck
	case "Throttle":
		return middleware.NewThrottle(1, 10*time.Millisecond).Middleware
	case "DelayOnError":
		return (&middleware.DelayOnError{InitialInterval: time.Second, MaxInterval: time.Hour, Multiplier: 2}).Middleware
	case "CircuitBreaker":
		return middleware.NewCircuitBreaker(gobreaker.Settings{Name: "cb"}).Middleware
	}
	panic(name)
}

func newMsg() *message.Message {
	m := message.NewMessage("u1", []byte("payload"))
	m.Metadata.Set(middleware.CorrelationIDMetadataKey, "corr-1")
	m.SetContext(context.WithValue(context.Background(), ctxKey{}, "v"))
	return m
}

type ctxKey struct{}

// single: one middleware around one handler result, compared with the bare handler.
func singleScenario() *explore.Scenario {
	return &explore.Scenario{Name: "single", C: -1, DataOnly: true, Body: func() {
		name := mwNames[vs.Choose(len(mwNames), 0, "middleware")]
		res := resultNames[vs.Choose(len(resultNames), 0, "handler result")]
		// the context the message arrives with: plain, or already bound by a deadline of its sender (later or
		// sooner than the Timeout middleware's own second)
		incoming := []string{"plain", "deadline-in-1h", "deadline-in-100ms"}[vs.Choose(3, 0, "incoming context")]
		cfg := name + "(" + res + ") incoming context " + incoming
		bare := call(func(m *message.Message) ([]*message.Message, error) { return produce(res, m) }, newMsg())
		msg := newMsg()
		var foreignIn time.Duration
		switch incoming {
		case "deadline-in-1h":
			foreignIn = time.Hour
		case "deadline-in-100ms":
			foreignIn = 100 * time.Millisecond
		}
		if foreignIn > 0 {
			ctx, cancelForeign := context.WithTimeout(msg.Context(), foreignIn)
			defer cancelForeign()
			msg.SetContext(ctx)
		}
		start := vs.VirtualNow()
		var inside struct {
			ctxErr      error
			hasDeadline bool
			deadlineIn  time.Duration
			acked       bool
			startedAt   time.Duration
			ctxVal      any
		}
		h := func(m *message.Message) ([]*message.Message, error) {
			inside.ctxErr = m.Context().Err()
			dl, ok := m.Context().Deadline()
			inside.hasDeadline = ok
			if ok {
				inside.deadlineIn = dl.Sub(vs.Now())
			}
			inside.acked = vs.PeekClosed(m.Acked())
			inside.startedAt = vs.VirtualNow() - start
			inside.ctxVal = m.Context().Value(ctxKey{})
			return produce(res, m)
		}
		got := call(mk(name)(h), msg)

		// ---- effect ends with the call
		if err := msg.Context().Err(); err != nil {
			vs.Fail("context-not-left-cancelled", "%s: after the call the message context is %v", cfg, err)
		}
		if inside.ctxVal != "v" {
			vs.Fail("context-values-kept", "%s: handler does not see the values of the original context", cfg)
		}
		if inside.ctxErr != nil {
			vs.Fail("context-live-during-call", "%s: context already done at handler entry: %v", cfg, inside.ctxErr)
		}
		// ---- documented effects
		expectErrNil := bare.err == nil
		switch name {
		case "Timeout":
			// the sooner of the two deadlines is the one in force
			if !inside.hasDeadline || inside.deadlineIn <= 0 || inside.deadlineIn > time.Second || (foreignIn > 0 && inside.deadlineIn > foreignIn) {
				vs.Fail("timeout-deadline", "%s: deadline during the call: present=%v in %v", cfg, inside.hasDeadline, inside.deadlineIn)
			}
		case "InstantAck":
			if !inside.acked {
				vs.Fail("instant-ack", "%s: message not acked at handler entry", cfg)
			}
		case "Throttle":
			if inside.startedAt < 10*time.Millisecond {
				vs.Fail("throttle-rate", "%s: handler started %v after the throttle was created, tick period 10ms", cfg, inside.startedAt)
			}
		case "IgnoreErrors":
			if isListed(bare.err) {
				expectErrNil = true
			}
		}
		if name != "InstantAck" && vs.PeekClosed(msg.Acked()) {
			vs.Fail("no-settlement", "%s: middleware acked the message", cfg)
		}
		if name != "Timeout" && foreignIn == 0 && inside.hasDeadline {
			vs.Fail("no-deadline", "%s: unexpected deadline", cfg)
		}
		if name != "Timeout" && foreignIn > 0 && (!inside.hasDeadline || inside.deadlineIn > foreignIn || inside.deadlineIn < foreignIn-20*time.Millisecond) {
			vs.Fail("no-deadline", "%s: the sender's deadline (in %v) is seen as present=%v in %v", cfg, foreignIn, inside.hasDeadline, inside.deadlineIn)
		}
		// panics
		if bare.panicked {
			if name == "Recoverer" {
				var rp middleware.RecoveredPanicError
				if got.panicked {
					vs.Fail("recoverer", "%s: panic escaped the Recoverer", cfg)
				} else if got.err == nil || !stderrors.As(got.err, &rp) {
					vs.Fail("recoverer", "%s: panic was turned into %v", cfg, got.err)
				} else if res != "panic-nil" && rp.V != bare.panicVal {
					vs.Fail("recoverer", "%s: error carries %v, the panic value was %v", cfg, rp.V, bare.panicVal)
				}
			} else if !got.panicked {
				vs.Fail("transparent", "%s: the handler panicked, the wrapped chain returned (%d outputs, %v)", cfg, len(got.outs), got.err)
			}
		} else {
			if got.panicked {
				vs.Fail("transparent", "%s: chain panicked with %v", cfg, got.panicVal)
			} else {
				// outputs unchanged (same count, same UUIDs in order)
				if len(got.outs) != len(bare.outs) {
					vs.Fail("transparent", "%s: %d outputs instead of %d", cfg, len(got.outs), len(bare.outs))
				} else {
					for i := range got.outs {
						if got.outs[i].UUID != bare.outs[i].UUID || string(got.outs[i].Payload) != string(bare.outs[i].Payload) {
							vs.Fail("transparent", "%s: output %d changed", cfg, i)
						}
						wantCID := bare.outs[i].Metadata.Get(middleware.CorrelationIDMetadataKey)
						if name == "CorrelationID" && wantCID == "" {
							wantCID = "corr-1"
						}
						if c := got.outs[i].Metadata.Get(middleware.CorrelationIDMetadataKey); c != wantCID {
							vs.Fail("correlation-id", "%s: output %d has correlation id %q, expected %q", cfg, i, c, wantCID)
						}
					}
				}
				if expectErrNil && got.err != nil {
					vs.Fail("transparent", "%s: error %v instead of nil", cfg, got.err)
				}
				if !expectErrNil && (got.err == nil || got.err.Error() != bare.err.Error()) {
					vs.Fail("transparent", "%s: error %v instead of %v", cfg, got.err, bare.err)
				}
			}
		}
		// DelayOnError touches the metadata only on failure
		_, delayed := msg.Metadata[delay.DelayedForKey]
		if delayed != (name == "DelayOnError" && !bare.panicked && bare.err != nil) {
			vs.Fail("delay-on-error-only-on-failure", "%s: delay metadata present=%v", cfg, delayed)
		}
		vs.Note("%s ok", cfg)
	}}
}

// DelayOnError: k-th consecutive failure => min(Initial*Mult^(k-1), Max)
func delayScenario() *explore.Scenario {
	return &explore.Scenario{Name: "delay-on-error", C: -1, DataOnly: true, Body: func() {
		mult := []float64{1, 1.25, 1.5, 2, 2.5}[vs.Choose(5, 0, "Multiplier")]
		initial := []time.Duration{time.Second, 100 * time.Millisecond, time.Millisecond, 3 * time.Microsecond}[vs.Choose(4, 0, "InitialInterval")]
		max := []time.Duration{3 * initial, 1000 * initial}[vs.Choose(2, 0, "MaxInterval")]
		d := &middleware.DelayOnError{InitialInterval: initial, MaxInterval: max, Multiplier: mult}
		n := 1 + vs.Choose(5, 0, "script length")
		msg := hx.Msg("m")
		// what the message carries before its first failure here: nothing, or something that is not a duration
		// (then the first failure starts the series at InitialInterval all the same)
		if vs.Choose(2, 0, "metadata before the first failure") == 1 {
			msg.Metadata.Set(delay.DelayedForKey, "not a duration")
		}
		fail := false
		h := d.Middleware(func(m *message.Message) ([]*message.Message, error) {
			if fail {
				return nil, plain
			}
			return nil, nil
		})
		want := time.Duration(0)
		k := 0
		script := ""
		for i := 0; i < n; i++ {
			fail = vs.Choose(2, 0, "outcome") == 0
			before := msg.Metadata.Get(delay.DelayedForKey)
			h(msg)
			after := msg.Metadata.Get(delay.DelayedForKey)
			if !fail {
				script += "S"
				if after != before {
					vs.Fail("delay-success-untouched", "Initial=%v Multiplier=%v Max=%v script %s: a success changed the delay from %q to %q", initial, mult, max, script, before, after)
				}
				k = -1 << 20 // after a success the statement does not fix the next value
				continue
			}
			script += "F"
			k++
			if k == 1 {
				want = initial
			} else if k > 1 {
				want = time.Duration(float64(want) * mult)
				if want > max {
					want = max
				}
			}
			if k >= 1 {
				got, err := time.ParseDuration(after)
				if err != nil || got != want {
					vs.Fail("delay-on-error-value", "Initial=%v Multiplier=%v Max=%v: after %d consecutive failures the delay is %q, expected %v", initial, mult, max, k, after, want)
				}
			}
		}
		vs.Note("initial=%v mult=%v max=%v %s", initial, mult, max, script)
	}}
}

// Throttle: the k-th handler start is not before the k-th tick, also with concurrent callers.
func throttleScenario(concurrent bool) *explore.Scenario {
	name := "throttle/sequential"
	if concurrent {
		name = "throttle/concurrent"
	}
	return &explore.Scenario{Name: name, C: 1, DPOR: concurrent, Body: func() {
		t := middleware.NewThrottle(2, 20*time.Millisecond) // one tick per 10ms
		var starts []time.Duration
		h := t.Middleware(func(m *message.Message) ([]*message.Message, error) {
			starts = append(starts, vs.VirtualNow())
			return nil, nil
		})
		n := 3
		// the rate holds for every message, whatever the state of its context: live, already cancelled, or
		// with a deadline (Timeout around the Throttle) shorter than the tick period
		shapes := []string{"live", "cancelled", "short-timeout"}
		send := func(shape int) {
			m := hx.Msg("m")
			f := h
			switch shapes[shape] {
			case "cancelled":
				ctx, cancel := context.WithCancel(context.Background())
				cancel()
				m.SetContext(ctx)
			case "short-timeout":
				f = middleware.Timeout(3 * time.Millisecond)(h)
			}
			f(m)
		}
		if concurrent {
			shape := vs.Choose(len(shapes), 0, "context of the messages")
			var wg vs.WaitGroup
			for i := 0; i < n; i++ {
				wg.Add(1)
				go func() { defer wg.Done(); send(shape) }()
			}
			wg.Wait()
		} else {
			for i := 0; i < n; i++ {
				send(vs.Choose(len(shapes), 0, "context of the message"))
			}
		}
		for k, s := range starts {
			if s < time.Duration(k+1)*10*time.Millisecond {
				vs.Fail("throttle-rate", "handler start %d at %v: faster than one per 10ms (%v)", k+1, s, starts)
			}
		}
		vs.Note("%v", starts)
	}}
}

// compositions with Retry: the simple middlewares do not change Retry's attempt count.
func retryScenario(depth int) *explore.Scenario {
	return &explore.Scenario{Name: fmt.Sprintf("compose-with-retry/depth%d", depth), C: -1, DataOnly: true, Body: func() {
		// chain = outer... Retry ...inner (positions chosen), each other element a simple middleware
		n := 1 + vs.Choose(depth, 0, "number of simple middlewares")
		retryPos := vs.Choose(n+1, 0, "position of Retry")
		var chain []string
		for i := 0; i < n; i++ {
			chain = append(chain, mwNames[vs.Choose(len(mwNames), 0, "middleware")])
		}
		failures := []int{0, 1, 3}[vs.Choose(3, 0, "failures")] // 3 = always (MaxRetries 2)
		retry := middleware.Retry{MaxRetries: 2, InitialInterval: 10 * time.Millisecond, MaxInterval: time.Second, Multiplier: 1}
		attempts := 0
		var h message.HandlerFunc = func(m *message.Message) ([]*message.Message, error) {
			attempts++
			if attempts <= failures {
				return nil, plain
			}
			return hx.Outputs(m, 1), nil
		}
		desc := ""
		// build from the innermost outwards: chain[0] is outermost
		full := append(append(append([]string{}, chain[:retryPos]...), "Retry"), chain[retryPos:]...)
		for i := len(full) - 1; i >= 0; i-- {
			if full[i] == "Retry" {
				h = retry.Middleware(h)
			} else {
				h = mk(full[i])(h)
			}
		}
		for _, f := range full {
			desc += f + ">"
		}
		msg := newMsg()
		got := call(h, msg)
		want := failures + 1
		if want > 3 {
			want = 3
		}
		if attempts != want {
			vs.Fail("retry-attempts-unchanged", "chain %sh with a handler failing %d times: %d attempts, Retry alone makes %d", desc, failures, attempts, want)
		}
		if failures < 3 && (got.err != nil || len(got.outs) != 1) {
			vs.Fail("retry-result-unchanged", "chain %sh: handler succeeded on attempt %d but the chain returned (%d outputs, %v)", desc, failures+1, len(got.outs), got.err)
		}
		if failures == 3 && got.err == nil && !got.panicked {
			vs.Fail("retry-result-unchanged", "chain %sh: every attempt failed but the chain returned nil", desc)
		}
		if err := msg.Context().Err(); err != nil {
			vs.Fail("context-not-left-cancelled", "chain %sh: after the call the message context is %v", desc, err)
		}
		vs.Note("%sh failures=%d attempts=%d", desc, failures, attempts)
	}}
}

func init() {
	add := func(tier reg.Tier, w int, mk func(t reg.Tier) *explore.Scenario) {
		reg.AddW("C19", mk(reg.Quick).Name, tier, w, mk)
	}
	add(reg.Quick, 5, func(t reg.Tier) *explore.Scenario { return singleScenario() })
	add(reg.Quick, 5, func(t reg.Tier) *explore.Scenario { return delayScenario() })
	add(reg.Quick, 5, func(t reg.Tier) *explore.Scenario { return throttleScenario(false) })
	add(reg.Quick, 5, func(t reg.Tier) *explore.Scenario { return throttleScenario(true) })
	add(reg.Quick, 5, func(t reg.Tier) *explore.Scenario { return retryScenario(1) })
	add(reg.Quick, 20, func(t reg.Tier) *explore.Scenario { return retryScenario(2) })
	add(reg.Thorough, 60, func(t reg.Tier) *explore.Scenario { return retryScenario(3) })
}
