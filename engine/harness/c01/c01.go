// Package c01: end-to-end at-least-once through Router pipelines on GoChannel topics under faults.
package c01

import (
	"context"
	"fmt"
	"strings"

	"github.com/ThreeDotsLabs/watermill/message"

	"verif/explore"
	"verif/harness/hx"
	"verif/harness/reg"
	"verif/vs"
)

type spec struct {
	Cfg    hx.GCfg
	Shape  string // "chain1" | "chain2" | "chain3" | "fanout" | "fanin"
	N      int
	F      int // fault budget
	C      int // preemption bound; <0: one schedule per fault placement
	MaxPer int // faults are injected only into the first MaxPer calls of each stage (keeps executions finite)
}

func (s spec) name() string {
	m := fmt.Sprintf("c%d", s.C)
	if s.C < 0 {
		m = "dataonly"
	}
	return fmt.Sprintf("%s/%s/N%d/f%d/%s", s.Shape, s.Cfg, s.N, s.F, m)
}

type stage struct {
	name     string
	from, to string
}

func stagesOf(shape string) (st []stage, sources []string, sinks []string) {
	switch shape {
	case "chain1":
		return []stage{{"s1", "t0", "t1"}}, []string{"t0"}, []string{"t1"}
	case "chain2":
		return []stage{{"s1", "t0", "t1"}, {"s2", "t1", "t2"}}, []string{"t0"}, []string{"t2"}
	case "chain3":
		return []stage{{"s1", "t0", "t1"}, {"s2", "t1", "t2"}, {"s3", "t2", "t3"}}, []string{"t0"}, []string{"t3"}
	case "fanout":
		return []stage{{"sa", "t0", "ta"}, {"sb", "t0", "tb"}}, []string{"t0"}, []string{"ta", "tb"}
	case "fanin":
		return []stage{{"sa", "ta", "t1"}, {"sb", "tb", "t1"}}, []string{"ta", "tb"}, []string{"t1"}
	case "fanout+leaver": // two branches and a consumer outside the pipeline on the same topic, which leaves (its context is
		// cancelled) while the source publishes: the branches lose nothing
		return []stage{{"sa", "t0", "ta"}, {"sb", "t0", "tb"}}, []string{"t0"}, []string{"ta", "tb"}
	case "split1": // one stage whose handler returns two outputs per input
		return []stage{{"split", "t0", "t1"}}, []string{"t0"}, []string{"t1"}
	case "split2": // a splitting stage followed by a pass-through stage
		return []stage{{"split", "t0", "t1"}, {"s2", "t1", "t2"}}, []string{"t0"}, []string{"t2"}
	}
	panic("unknown shape")
}

type invRec struct {
	stage   string
	msg     *message.Message
	fault   int  // 0 ok, 1 error, 2 panic
	pubOK   bool // a Publish call for this invocation's output returned nil
	pubSeen bool
}

func scenario(sp spec) *explore.Scenario {
	return &explore.Scenario{Name: sp.name(), C: sp.C, F: sp.F, DataOnly: sp.C < 0, Body: func() { body(sp) },
		Opts: vs.Options{MaxSteps: 60000}}
}

func body(sp spec) {
	g := sp.Cfg.New()
	stages, sources, sinks := stagesOf(sp.Shape)
	r, err := message.NewRouter(message.RouterConfig{}, nil)
	if err != nil {
		vs.Fail("setup", "%v", err)
		return
	}
	var invs []*invRec
	calls := map[string]int{}
	for _, st := range stages {
		st := st
		pub := hx.NewScriptPub(st.name)
		pub.Inner = g
		var current *invRec // the invocation whose outputs are being published (one message at a time per stage)
		pub.Outcome = func(call int, topic string, msgs []*message.Message) hx.PubOutcome {
			o := hx.PubOK
			if call < sp.MaxPer {
				o = hx.PubOutcome(vs.Choose(5, 1, "publish fault "+st.name))
			}
			if current != nil {
				current.pubSeen = true
				current.pubOK = o == hx.PubOK
			}
			return o
		}
		r.AddHandler(st.name, st.from, g, st.to, pub, func(m *message.Message) ([]*message.Message, error) {
			iv := &invRec{stage: st.name, msg: m}
			invs = append(invs, iv)
			current = iv
			// the stages honour the context of what they are given (as a handler calling a database or an HTTP API
			// would): a delivery whose context has already ended cannot be worked on
			if err := m.Context().Err(); err != nil {
				iv.fault = 1
				vs.Fail("delivery-context-live", "stage %s was given %s with a context that has already ended: %v", st.name, m.UUID, err)
				return nil, err
			}
			n := calls[st.name]
			calls[st.name]++
			if n < sp.MaxPer {
				iv.fault = vs.Choose(4, 1, "handler fault "+st.name)
			}
			switch iv.fault {
			case 1:
				return nil, hx.ErrHandler
			case 2:
				panic("injected handler panic")
			case 3:
				return nil, context.Canceled
			}
			out := m.Copy() // same lineage: the UUID travels through the pipeline
			out.Metadata.Set("via", m.Metadata.Get("via")+st.name+">")
			if st.name == "split" {
				a, b := out, out.Copy()
				a.UUID, b.UUID = m.UUID+"/a", m.UUID+"/b"
				return []*message.Message{a, b}, nil
			}
			return []*message.Message{out}, nil
		})
	}
	// sinks
	type sinkT struct {
		topic string
		ch    <-chan *message.Message
	}
	var sk []sinkT
	for _, t := range sinks {
		ch, err := g.Subscribe(context.Background(), t)
		if err != nil {
			vs.Fail("subscribe-error", "%v", err)
			return
		}
		sk = append(sk, sinkT{t, ch})
	}
	var leave func()
	if sp.Shape == "fanout+leaver" {
		// subscribed first: when it leaves, the entries of the two branches move up in the topic's subscriber list
		lctx, cancel := context.WithCancel(context.Background())
		lch, err := g.Subscribe(lctx, "t0")
		if err != nil {
			vs.Fail("subscribe-error", "%v", err)
			return
		}
		leave = cancel
		go func() {
			for m := range lch {
				m.Ack()
			}
		}()
	}
	go func() {
		if err := r.Run(context.Background()); err != nil {
			vs.Fail("run-result", "%v", err)
		}
	}()
	<-r.Running()
	// the source publisher runs on its own (a blocking GoChannel only returns once the pipeline acked)
	published := map[string]bool{} // the lineages expected at every sink
	for _, src := range sources {
		for i := 0; i < sp.N; i++ {
			u := fmt.Sprintf("%s-m%d", src, i)
			if strings.HasPrefix(sp.Shape, "split") {
				published[u+"/a"], published[u+"/b"] = true, true
			} else {
				published[u] = true
			}
		}
	}
	go func() {
		for _, src := range sources {
			for i := 0; i < sp.N; i++ {
				m := hx.Msg(fmt.Sprintf("%s-m%d", src, i))
				if err := g.Publish(src, m); err != nil {
					vs.Fail("publish-error", "source publish failed: %v", err)
				}
			}
		}
	}()
	if leave != nil {
		go leave()
	}
	// every sink must eventually hold every lineage that can reach it; a lost message leaves the body
	// blocked here for ever (reported as a hang)
	arrived := ""
	var dones []chan struct{}
	for _, s := range sk {
		s := s
		done := make(chan struct{})
		dones = append(dones, done)
		got := map[string]int{}
		go func() { // the sink keeps consuming (duplicates are legal under at-least-once)
			for m := range s.ch {
				if !published[m.UUID] {
					vs.Fail("no-invented-message", "sink %s received %q which was never published at the source", s.topic, m.UUID)
				}
				got[m.UUID]++
				arrived += m.UUID + "@" + s.topic + " "
				m.Ack()
				if len(got) == len(published) && got[m.UUID] == 1 {
					close(done)
				}
			}
		}()
	}
	for _, d := range dones {
		<-d // hang = a lineage that never reaches this sink
	}
	vs.Quiesce()
	// a stage gives a message up only after the next topic accepted its output
	for _, iv := range invs {
		st := hx.SettlementOf(iv.msg)
		switch {
		case st == "unsettled":
			vs.Fail("settled", "stage %s: consumed copy of %s unsettled at quiescence", iv.stage, iv.msg.UUID)
		case st == "acked" && (iv.fault != 0 || !iv.pubSeen || !iv.pubOK):
			vs.Fail("ack-only-after-accept", "stage %s acked %s although fault=%d publish-called=%v publish-ok=%v", iv.stage, iv.msg.UUID, iv.fault, iv.pubSeen, iv.pubOK)
		case st == "nacked" && iv.fault == 0 && iv.pubSeen && iv.pubOK:
			// allowed by at-least-once? no: a successful handling must be acked (otherwise redelivered for ever)
			vs.Fail("ack-after-success", "stage %s nacked %s although handler and publish succeeded", iv.stage, iv.msg.UUID)
		}
	}
	faults := 0
	for _, iv := range invs {
		if iv.fault != 0 || (iv.pubSeen && !iv.pubOK) {
			faults++
		}
	}
	vs.Note("faults=%d invocations=%d arrived=%s", faults, len(invs), strings.TrimSpace(arrived))
}

func init() {
	add := func(tier reg.Tier, w int, sp spec, ct, ft int) {
		sc := scenario(sp)
		reg.AddW("C01", sc.Name, tier, w, func(t reg.Tier) *explore.Scenario {
			x := sp
			if t == reg.Thorough {
				x.C, x.F = ct, ft
			}
			return scenario(x)
		})
	}
	for _, cfg := range hx.AllGCfg(0, 1) {
		// every placement of up to 2 faults, one schedule each
		add(reg.Quick, 3, spec{Cfg: cfg, Shape: "chain1", N: 2, F: 2, C: -1, MaxPer: 4}, -1, 3)
		add(reg.Quick, 6, spec{Cfg: cfg, Shape: "chain2", N: 2, F: 2, C: -1, MaxPer: 3}, -1, 3)
		add(reg.Quick, 6, spec{Cfg: cfg, Shape: "fanout", N: 2, F: 2, C: -1, MaxPer: 3}, -1, 3)
		add(reg.Quick, 6, spec{Cfg: cfg, Shape: "fanin", N: 1, F: 2, C: -1, MaxPer: 3}, -1, 3)
		add(reg.Quick, 6, spec{Cfg: cfg, Shape: "chain3", N: 1, F: 2, C: -1, MaxPer: 2}, -1, 3)
		add(reg.Quick, 6, spec{Cfg: cfg, Shape: "split1", N: 1, F: 2, C: -1, MaxPer: 4}, -1, 3)
		add(reg.Quick, 6, spec{Cfg: cfg, Shape: "split2", N: 1, F: 2, C: -1, MaxPer: 3}, -1, 3)
		// schedules with faults
		add(reg.Quick, 20, spec{Cfg: cfg, Shape: "chain1", N: 1, F: 1, C: 1, MaxPer: 2}, 2, 1)
		add(reg.Thorough, 60, spec{Cfg: cfg, Shape: "chain2", N: 1, F: 1, C: 0, MaxPer: 2}, 0, 1)
		add(reg.Thorough, 30, spec{Cfg: cfg, Shape: "fanout", N: 1, F: 1, C: 0, MaxPer: 2}, 1, 1)
		if !cfg.Blocking { // (in blocking mode a subscriber that leaves runs into the known C05 finding: unsubscribe waits for the publisher's read lock)
			// (with a router in the picture even the search without preemptions takes ~250k executions per configuration,
			// and the window - the leaver's removal between two iterations of the dispatch loop - needs one preemption:
			// thorough tier, budget-capped; C04's */cancel-during-dispatch decides the same window on the bare Pub/Sub in
			// the quick tier)
			add(reg.Thorough, 30, spec{Cfg: cfg, Shape: "fanout+leaver", N: 1, F: 0, C: 1, MaxPer: 0}, 1, 0)
		}
	}
}
