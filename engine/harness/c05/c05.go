// Package c05: GoChannel keeps at most one unsettled message per subscription; with
// BlockPublishUntilSubscriberAck Publish waits for the Acks, keeps order, and does return.
package c05

import (
	"context"
	"fmt"

	"github.com/ThreeDotsLabs/watermill/message"
	"github.com/ThreeDotsLabs/watermill/pubsub/gochannel"

	"verif/explore"
	"verif/harness/hx"
	"verif/harness/reg"
	"verif/vs"
)

// ---- family 1: one unsettled message per subscription (cut invariant) ------------------------------

type subState struct {
	ch       <-chan *message.Message
	received []*message.Message
}

func unsettled(s *subState) int {
	n := 0
	for _, m := range s.received {
		if !vs.PeekClosed(m.Acked()) && !vs.PeekClosed(m.Nacked()) {
			n++
		}
	}
	return n
}

// installInvariant: at every cut, per subscription: receivable messages + received-and-unsettled <= 1.
func installInvariant(subs []*subState) {
	vs.AddInvariant(func() *vs.Failure {
		for i, s := range subs {
			if s.ch == nil {
				continue
			}
			recvable := vs.PeekLen(s.ch)
			if vs.PeekSenders(s.ch) > 0 {
				recvable++
			}
			if u := unsettled(s); recvable+u > 1 {
				return &vs.Failure{Clause: "one-unsettled", Msg: fmt.Sprintf("subscription %d: %d message(s) receivable while %d received message(s) are unsettled", i, recvable, u)}
			}
		}
		return nil
	})
}

// consumer scripts: "ack", "nack1" (nack every first delivery), "hold" (never settle the first message, keep receiving)
func consume(s *subState, script string, log *[]string) {
	att := map[string]int{}
	for m := range s.ch {
		s.received = append(s.received, m)
		*log = append(*log, m.UUID)
		a := att[m.UUID]
		att[m.UUID]++
		switch script {
		case "ack":
			m.Ack()
		case "nack1":
			if a == 0 {
				m.Nack()
			} else {
				m.Ack()
			}
		case "hold":
			if len(s.received) > 1 {
				m.Ack()
			}
		case "slow":
			vs.Yield()
			vs.Yield()
			m.Ack()
		}
	}
}

func invScenario(cfg hx.GCfg, P, M int, script string, c int) *explore.Scenario {
	return &explore.Scenario{
		Name: fmt.Sprintf("inv/%s/P%dxM%d/%s", cfg, P, M, script), C: c,
		Body: func() {
			g := cfg.New()
			s := &subState{}
			ch, err := g.Subscribe(context.Background(), "t")
			if err != nil {
				vs.Fail("subscribe-error", "%v", err)
				return
			}
			s.ch = ch
			installInvariant([]*subState{s})
			var log []string
			go consume(s, script, &log)
			for p := 0; p < P; p++ {
				p := p
				go func() {
					for i := 0; i < M; i++ {
						g.Publish("t", hx.Msg(fmt.Sprintf("p%dm%d", p, i)))
					}
				}()
			}
			vs.Quiesce()
			if script == "hold" {
				if len(s.received) != 1 {
					vs.Fail("one-unsettled", "consumer never settled its first message but received %d messages", len(s.received))
				}
			} else {
				want := P * M
				if script == "nack1" {
					want *= 2
				}
				if len(s.received) != want {
					vs.Fail("delivery", "consumer %q received %d deliveries, expected %d", script, len(s.received), want)
				}
			}
			vs.Note("%v", log)
			g.Close()
		},
	}
}

// ---- family 2: blocking publish waits for the acks and keeps order -----------------------------------

func blockScenario(cfg hx.GCfg, P, M int, scripts []string, concSub bool, c int) *explore.Scenario {
	return blockScenarioB(cfg, P, M, scripts, concSub, c, false)
}

// batch: each publisher hands its M messages to one Publish call
func blockScenarioB(cfg hx.GCfg, P, M int, scripts []string, concSub bool, c int, batch bool) *explore.Scenario {
	name := fmt.Sprintf("block/%s/P%dxM%d/", cfg, P, M)
	if batch {
		name = fmt.Sprintf("block-batch/%s/P%dxM%d/", cfg, P, M)
	}
	for _, s := range scripts {
		name += s + "-"
	}
	if concSub {
		name += "concsub"
	}
	return &explore.Scenario{
		Name: name, C: c,
		Body: func() {
			g := cfg.New()
			S := len(scripts)
			acked := make([]map[string]bool, S)
			firsts := make([][]string, S)
			subs := make([]*subState, S)
			for s := 0; s < S; s++ {
				s := s
				acked[s] = map[string]bool{}
				ch, err := g.Subscribe(context.Background(), "t")
				if err != nil {
					vs.Fail("subscribe-error", "%v", err)
					return
				}
				subs[s] = &subState{ch: ch}
				go func() {
					att := map[string]int{}
					for m := range ch {
						subs[s].received = append(subs[s].received, m)
						if att[m.UUID] == 0 {
							firsts[s] = append(firsts[s], m.UUID)
						}
						att[m.UUID]++
						if scripts[s] == "nack1" && att[m.UUID] == 1 {
							m.Nack()
							continue
						}
						acked[s][m.UUID] = true
						m.Ack()
					}
				}()
			}
			installInvariant(subs)
			var wg vs.WaitGroup
			for p := 0; p < P; p++ {
				p := p
				wg.Add(1)
				go func() {
					defer wg.Done()
					if batch {
						var ms []*message.Message
						for i := 0; i < M; i++ {
							ms = append(ms, hx.Msg(fmt.Sprintf("p%dm%d", p, i)))
						}
						if err := g.Publish("t", ms...); err != nil {
							vs.Fail("publish-error", "%v", err)
						}
						for s := 0; s < S; s++ {
							for _, m := range ms {
								if !acked[s][m.UUID] {
									vs.Fail("publish-waits-for-ack", "Publish(batch) returned before subscription %d acked %s (cfg %s)", s, m.UUID, cfg)
								}
							}
						}
						return
					}
					for i := 0; i < M; i++ {
						u := fmt.Sprintf("p%dm%d", p, i)
						if err := g.Publish("t", hx.Msg(u)); err != nil {
							vs.Fail("publish-error", "%v", err)
						}
						for s := 0; s < S; s++ {
							if !acked[s][u] {
								vs.Fail("publish-waits-for-ack", "Publish(%s) returned before subscription %d acked it (cfg %s)", u, s, cfg)
							}
						}
					}
				}()
			}
			if concSub {
				wg.Add(1)
				go func() {
					defer wg.Done()
					ch, err := g.Subscribe(context.Background(), "t")
					if err != nil {
						vs.Fail("subscribe-error", "%v", err)
						return
					}
					go func() {
						for m := range ch {
							m.Ack()
						}
					}()
				}()
			}
			wg.Wait() // hang here = a Publish (or Subscribe) that never returns although every consumer acks
			for s := 0; s < S; s++ {
				// per publisher: first deliveries in publish order
				last := map[byte]int{}
				for _, u := range firsts[s] {
					p, i := u[1], int(u[3]-'0')
					if i < last[p] {
						vs.Fail("publish-order", "subscription %d received %v: publisher %c's messages out of order", s, firsts[s], p)
					}
					last[p] = i
				}
			}
			vs.Note("%v", firsts)
			g.Close()
		},
	}
}

// ---- family 3: liveness of blocking publish with re-entrant publishing and subscription churn ---------

// consumer of topic A publishes to topic B (no subscribers) before acking; meanwhile `churn` happens:
// "none", "subscribe" (a Subscribe to topic C), "cancel" (the context of a subscription on C is cancelled).
func liveScenario(buf int, persistent bool, reentrant bool, churn string, c int) *explore.Scenario {
	cfg := hx.GCfg{Buf: buf, Persistent: persistent, Blocking: true}
	name := fmt.Sprintf("live/%s/reentrant=%v/churn=%s", cfg, reentrant, churn)
	return &explore.Scenario{
		Name: name, C: c,
		Body: func() {
			g := gochannel.NewGoChannel(gochannel.Config{OutputChannelBuffer: int64(buf), Persistent: persistent, BlockPublishUntilSubscriberAck: true}, nil)
			a, err := g.Subscribe(context.Background(), "A")
			if err != nil {
				vs.Fail("subscribe-error", "%v", err)
				return
			}
			var cancelC context.CancelFunc
			if churn == "cancel" {
				var ctxC context.Context
				ctxC, cancelC = context.WithCancel(context.Background())
				if _, err := g.Subscribe(ctxC, "C"); err != nil {
					vs.Fail("subscribe-error", "%v", err)
					return
				}
			}
			var wg vs.WaitGroup
			wg.Add(2)
			go func() { // consumer
				defer wg.Done()
				m := <-a
				if reentrant {
					if err := g.Publish("B", hx.Msg("b")); err != nil {
						vs.Fail("publish-error", "%v", err)
					}
				}
				m.Ack()
			}()
			go func() { // publisher
				defer wg.Done()
				if err := g.Publish("A", hx.Msg("a")); err != nil {
					vs.Fail("publish-error", "%v", err)
				}
			}()
			switch churn {
			case "subscribe":
				wg.Add(1)
				go func() {
					defer wg.Done()
					if _, err := g.Subscribe(context.Background(), "C"); err != nil {
						vs.Fail("subscribe-error", "%v", err)
					}
				}()
			case "cancel":
				wg.Add(1)
				go func() {
					defer wg.Done()
					cancelC()
				}()
			}
			wg.Wait() // hang = Publish does not return although the subscriber is willing to ack
			vs.Note("done")
			g.Close()
		},
	}
}

// ---- family 4: a blocked Publish is released when the subscription (or the Pub/Sub) is closed ---------------

// The only subscription holds its message unsettled (or never reads); then `how` happens:
// "cancel" (that subscription's context), "close" (the Pub/Sub). Publish must return.
func unblockScenario(cfg hx.GCfg, consumer, how string, c int) *explore.Scenario {
	return &explore.Scenario{Name: fmt.Sprintf("unblock/%s/%s/%s", cfg, consumer, how), C: c, DPOR: true, DPORSeconds: 10, Body: func() {
		g := cfg.New()
		ctx, cancel := context.WithCancel(context.Background())
		ch, err := g.Subscribe(ctx, "t")
		if err != nil {
			vs.Fail("subscribe-error", "%v", err)
			return
		}
		closedSeen := false
		go func() {
			if consumer == "hold" {
				if _, ok := <-ch; ok {
					for range ch { // never settles what it got; later messages (none) would be acked
					}
				}
				closedSeen = true
			}
		}()
		var wg vs.WaitGroup
		wg.Add(2)
		go func() {
			defer wg.Done()
			g.Publish("t", hx.Msg("m0")) // blocks until acked, or until the subscription / Pub/Sub is closed
		}()
		go func() {
			defer wg.Done()
			if how == "cancel" {
				cancel()
			} else {
				g.Close()
			}
		}()
		wg.Wait() // hang = Publish not released by the closing of its only subscription
		vs.Quiesce()
		if consumer == "hold" && !closedSeen {
			vs.Fail("subscription-closed", "the subscription's channel was not closed after %s", how)
		}
		vs.Note("released")
		cancel()
		g.Close()
	}}
}

func init() {
	for _, cfg := range hx.AllGCfg(0, 1) {
		if !cfg.Blocking {
			continue
		}
		for _, cons := range []string{"hold", "noread"} {
			for _, how := range []string{"cancel", "close"} {
				cfg, cons, how := cfg, cons, how
				sc := unblockScenario(cfg, cons, how, 2)
				reg.AddW("C05", sc.Name, reg.Quick, 3, func(t reg.Tier) *explore.Scenario {
					if t == reg.Thorough {
						return unblockScenario(cfg, cons, how, 3)
					}
					return unblockScenario(cfg, cons, how, 2)
				})
			}
		}
	}
	addInv := func(tier reg.Tier, w int, cfg hx.GCfg, P, M int, script string, cq, ct int) {
		sc := invScenario(cfg, P, M, script, cq)
		reg.AddW("C05", sc.Name, tier, w, func(t reg.Tier) *explore.Scenario {
			if t == reg.Thorough {
				return invScenario(cfg, P, M, script, ct)
			}
			return invScenario(cfg, P, M, script, cq)
		})
	}
	for _, cfg := range hx.AllGCfg(0, 1, 2) {
		addInv(reg.Quick, 2, cfg, 1, 2, "ack", -1, -1)
		addInv(reg.Quick, 4, cfg, 1, 2, "nack1", -1, -1)
		addInv(reg.Quick, 3, cfg, 1, 2, "hold", -1, -1)
		addInv(reg.Quick, 10, cfg, 2, 1, "slow", 3, -1)
		addInv(reg.Thorough, 30, cfg, 2, 2, "ack", 2, 3)
		addInv(reg.Thorough, 30, cfg, 2, 1, "nack1", 3, -1)
		addInv(reg.Thorough, 30, cfg, 2, 1, "hold", 3, -1)
	}
	addBlock := func(tier reg.Tier, w int, cfg hx.GCfg, P, M int, scripts []string, conc bool, cq, ct int) {
		sc := blockScenario(cfg, P, M, scripts, conc, cq)
		reg.AddW("C05", sc.Name, tier, w, func(t reg.Tier) *explore.Scenario {
			if t == reg.Thorough {
				return blockScenario(cfg, P, M, scripts, conc, ct)
			}
			return blockScenario(cfg, P, M, scripts, conc, cq)
		})
	}
	for _, cfg := range hx.AllGCfg(0, 1) {
		if !cfg.Blocking {
			continue
		}
		addBlock(reg.Quick, 5, cfg, 1, 2, []string{"nack1"}, false, -1, -1)
		{
			cfg := cfg
			for _, scr := range [][]string{{"ack"}, {"nack1"}, {"ack", "ack"}} {
				scr := scr
				cq := -1
				if len(scr) > 1 {
					cq = 2
				}
				sc := blockScenarioB(cfg, 1, 2, scr, false, cq, true)
				reg.AddW("C05", sc.Name, reg.Quick, 6, func(t reg.Tier) *explore.Scenario {
					if t == reg.Thorough {
						return blockScenarioB(cfg, 1, 3, scr, false, 2, true)
					}
					return blockScenarioB(cfg, 1, 2, scr, false, cq, true)
				})
			}
		}
		addBlock(reg.Quick, 15, cfg, 1, 2, []string{"ack", "nack1"}, false, 2, 3)
		addBlock(reg.Quick, 15, cfg, 1, 1, []string{"ack"}, true, 2, 4)
		addBlock(reg.Quick, 15, cfg, 2, 1, []string{"ack"}, false, 2, -1)
		addBlock(reg.Thorough, 60, cfg, 2, 1, []string{"ack"}, true, 1, 2)
		addBlock(reg.Thorough, 40, cfg, 2, 2, []string{"ack"}, false, 2, 3)
		addBlock(reg.Thorough, 40, cfg, 2, 1, []string{"nack1", "ack"}, true, 2, 2)
	}
	for _, buf := range []int{0, 1} {
		for _, pers := range []bool{false, true} {
			for _, re := range []bool{false, true} {
				for _, churn := range []string{"none", "subscribe", "cancel"} {
					buf, pers, re, churn := buf, pers, re, churn
					sc := liveScenario(buf, pers, re, churn, -1)
					reg.AddW("C05", sc.Name, reg.Quick, 3, func(t reg.Tier) *explore.Scenario { return liveScenario(buf, pers, re, churn, -1) })
				}
			}
		}
	}
}
