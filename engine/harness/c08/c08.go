// Package c08: the Router routes per handler — right function, right topic, unmodified outputs,
// right context values.
package c08

import (
	"context"
	"fmt"
	"sort"
	"strings"

	"github.com/ThreeDotsLabs/watermill/message"

	"verif/explore"
	"verif/harness/hx"
	"verif/harness/reg"
	"verif/vs"
)

type ownCtxKey struct{}

type wiring struct {
	name   string
	sub    int // index into subscribers pool
	topic  int // subscribe topic
	pub    int // publisher pool
	ptopic int // publish topic
	shape  int // 0 none, 1 one fresh, 2 two fresh, 3 the consumed message itself, 4 one shared object
	noPub  bool
	nilPub bool // (with noPub) registered through AddHandler with a nil publisher
}

var shapeNames = []string{"none", "one", "two", "self", "shared"}

type invocation struct {
	h    int
	uuid string
	outs []*message.Message
}

func sig(pub, topic string, ms []*message.Message) string {
	s := pub + "|" + topic + "|"
	for _, m := range ms {
		s += fmt.Sprintf("%p,", m)
	}
	return s
}

func scenario(H int, withNoPub bool, shapes []int, msgsPerTopic, c int) *explore.Scenario {
	return scenarioX(H, withNoPub, shapes, msgsPerTopic, c, false)
}

// inFlight: the subscribers hand out the next message without waiting for the previous settlement, and
// goroutine starts are scheduling points (a dispatch goroutine may start late).
func scenarioX(H int, withNoPub bool, shapes []int, msgsPerTopic, c int, inFlight bool) *explore.Scenario {
	return scenarioD(H, withNoPub, shapes, msgsPerTopic, c, inFlight, false)
}

// deco: the router has a publisher decorator and a subscriber decorator (the context still names the
// handler's own publisher and subscriber, not the decorators wrapped around them).
func scenarioD(H int, withNoPub bool, shapes []int, msgsPerTopic, c int, inFlight bool, deco bool) *explore.Scenario {
	name := fmt.Sprintf("H%d/c%d/n%d/shapes", H, c, msgsPerTopic)
	if deco {
		name = "decorated/" + name
	}
	if inFlight {
		name = fmt.Sprintf("inflight/H%d/c%d/n%d/shapes", H, c, msgsPerTopic)
	}
	for _, s := range shapes {
		name += "-" + shapeNames[s]
	}
	if withNoPub {
		name += "/+nopub"
	}
	return &explore.Scenario{Name: name, C: c, DataOnly: c < 0, Opts: vs.Options{LazyStart: inFlight}, Body: func() {
		topics := []string{"t1", "t2"}
		ptopics := []string{"o1", ""} // the empty string is a topic like any other for a handler that has a publisher
		// pools
		var subs []*hx.ScriptSub
		for si := 0; si < 2; si++ {
			script := map[string][]*message.Message{}
			for _, t := range topics {
				for i := 0; i < msgsPerTopic; i++ {
					script[t] = append(script[t], hx.Msg(fmt.Sprintf("s%d.%s.m%d", si, t, i)))
				}
			}
			ss := hx.NewScriptSub(fmt.Sprintf("s%d", si), script)
			ss.InFlight = inFlight
			subs = append(subs, ss)
		}
		pubs := []*hx.ScriptPub{hx.NewScriptPub("p0"), hx.NewScriptPub("p1")}
		shared := hx.Msg("shared-object")
		// wiring program: handler 0 is fixed by symmetry, the others are chosen
		ws := make([]wiring, H)
		for i := range ws {
			w := wiring{name: fmt.Sprintf("h%d", i), shape: shapes[i]}
			if i > 0 {
				k := vs.Choose(16, 0, "wiring")
				w.sub, w.topic, w.pub, w.ptopic = k&1, (k>>1)&1, (k>>2)&1, (k>>3)&1
			}
			ws[i] = w
		}
		// handler 0 may be given a subscriber that its owner has already wrapped in Watermill's own transform decorator
		// (e.g. to stamp incoming messages): a subscriber like any other, the router adds its context values all the same
		var preDecorated message.Subscriber
		if H <= 2 && c < 0 && vs.Choose(2, 0, "handler 0's subscriber is pre-decorated by the caller") == 1 {
			d, err := message.MessageTransformSubscriberDecorator(func(m *message.Message) { m.Metadata.Set("stamped-by-caller", "yes") })(subs[ws[0].sub])
			if err != nil {
				vs.Fail("setup", "%v", err)
				return
			}
			preDecorated = d
		}
		subOf := func(hi int, w wiring) message.Subscriber {
			if hi == 0 && preDecorated != nil {
				return preDecorated
			}
			return subs[w.sub]
		}
		subNameOf := func(hi int, w wiring) string {
			if hi == 0 && preDecorated != nil {
				return strings.TrimLeft(fmt.Sprintf("%T", preDecorated), "*") // no Stringer: the type name
			}
			return subs[w.sub].String()
		}
		// one handler may be registered under the empty name (legal: names only have to be distinct)
		if vs.Choose(2, 0, "handler 0 is unnamed") == 1 {
			ws[0].name = ""
		}
		if withNoPub {
			// ... registered through AddNoPublisherHandler, or through AddHandler with a nil publisher
			k := vs.Choose(8, 0, "nopub wiring")
			ws = append(ws, wiring{name: "np", sub: k & 1, topic: (k >> 1) & 1, noPub: true, nilPub: (k>>2)&1 == 1, shape: 1})
		}
		r, err := message.NewRouter(message.RouterConfig{}, nil)
		if err != nil {
			vs.Fail("setup", "%v", err)
			return
		}
		if deco {
			r.AddPublisherDecorators(message.MessageTransformPublisherDecorator(func(m *message.Message) {}))
			r.AddSubscriberDecorators(message.MessageTransformSubscriberDecorator(func(m *message.Message) {}))
		}
		var invs []*invocation
		running := map[int]int{} // goroutine -> handler whose function it ran last (the router publishes from that goroutine)
		ctxFail := func(what, got, want string, w wiring) {
			if got != want {
				vs.Fail("context", "handler %s: %s in context is %q, expected %q", w.name, what, got, want)
			}
		}
		for hi, w := range ws {
			hi, w := hi, w
			fn := func(m *message.Message) ([]*message.Message, error) {
				ctx := m.Context()
				ctxFail("handler name", message.HandlerNameFromCtx(ctx), w.name, w)
				ctxFail("subscribe topic", message.SubscribeTopicFromCtx(ctx), topics[w.topic], w)
				ctxFail("subscriber name", message.SubscriberNameFromCtx(ctx), subNameOf(hi, w), w)
				if hi == 0 && preDecorated != nil && m.Metadata.Get("stamped-by-caller") != "yes" {
					vs.Fail("routing", "handler %s: the caller's own subscriber decorator did not see the message", w.name)
				}
				if !w.noPub {
					ctxFail("publish topic", message.PublishTopicFromCtx(ctx), ptopics[w.ptopic], w)
					ctxFail("publisher name", message.PublisherNameFromCtx(ctx), pubs[w.pub].String(), w)
				}
				iv := &invocation{h: hi, uuid: m.UUID}
				running[vs.Self()] = hi
				switch w.shape {
				case 1:
					iv.outs = hx.Outputs(m, 1)
				case 2:
					iv.outs = hx.Outputs(m, 2)
				case 3:
					iv.outs = []*message.Message{m}
				case 4:
					iv.outs = []*message.Message{shared}
				}
				for _, o := range iv.outs {
					if w.shape <= 2 {
						o.Metadata.Set("handler", w.name)
						// every fresh output has a context of its own (values, deadlines): the router adds to it
						o.SetContext(context.WithValue(context.Background(), ownCtxKey{}, o.UUID))
					}
				}
				invs = append(invs, iv)
				// the router gets its own slice: the harness keeps the order it returned
				return append([]*message.Message{}, iv.outs...), nil
			}
			if w.noPub {
				var h *message.Handler
				if w.nilPub {
					h = r.AddHandler(w.name, topics[w.topic], subOf(hi, w), "", nil, func(m *message.Message) ([]*message.Message, error) {
						_, err := fn(m)
						return nil, err
					})
				} else {
					h = r.AddNoPublisherHandler(w.name, topics[w.topic], subOf(hi, w), func(m *message.Message) error {
						_, err := fn(m)
						return err
					})
				}
				// a middleware that makes the chain return messages
				h.AddMiddleware(func(next message.HandlerFunc) message.HandlerFunc {
					return func(m *message.Message) ([]*message.Message, error) {
						if _, err := next(m); err != nil {
							return nil, err
						}
						return hx.Outputs(m, 1), nil
					}
				})
			} else {
				h := r.AddHandler(w.name, topics[w.topic], subOf(hi, w), ptopics[w.ptopic], pubs[w.pub], fn)
				// a handler-level middleware: it belongs to this handler and must never run around another one
				h.AddMiddleware(func(next message.HandlerFunc) message.HandlerFunc {
					return func(m *message.Message) ([]*message.Message, error) {
						out, err := next(m)
						if ran, ok := running[vs.Self()]; ok && ran != hi {
							vs.Fail("routing", "the handler-level middleware of %q ran around the function of %q (wiring %s)", w.name, ws[ran].name, describe(ws))
						}
						// what the chain returns is what gets published: a message the middleware adds is an output of
						// this handler like the others (same publisher, same topic, same context values)
						if err == nil && len(out) > 0 && len(invs) > 0 && invs[len(invs)-1].h == hi && invs[len(invs)-1].uuid == m.UUID {
							audit := message.NewMessage(m.UUID+"/audit", []byte("added by the middleware of "+w.name))
							audit.Metadata.Set("handler", w.name)
							audit.SetContext(context.WithValue(context.Background(), ownCtxKey{}, audit.UUID))
							invs[len(invs)-1].outs = append(invs[len(invs)-1].outs, audit)
							out = append(out, audit)
						}
						return out, err
					}
				})
			}
		}
		// produced messages carry the producing handler's context when they reach the publisher
		for pi, p := range pubs {
			pi, p := pi, p
			p.Probe = func(call *hx.PubCall) string {
				// every produced message (fresh, the consumed one passed through, or an object shared between
				// handlers) carries the context of the handler that is publishing it
				if hi, ok := running[vs.Self()]; ok {
					w := ws[hi]
					for _, m := range call.Msgs {
						if m == shared && c > 0 {
							// an object returned by two handlers at once has one context: which handler's
							// values it shows while both are publishing is decided only without preemptions
							continue
						}
						ctx := m.Context()
						ctxFail("handler name on a produced message", message.HandlerNameFromCtx(ctx), w.name, w)
						ctxFail("subscribe topic on a produced message", message.SubscribeTopicFromCtx(ctx), topics[w.topic], w)
						ctxFail("subscriber name on a produced message", message.SubscriberNameFromCtx(ctx), subNameOf(hi, w), w)
						ctxFail("publish topic on a produced message", message.PublishTopicFromCtx(ctx), ptopics[w.ptopic], w)
						ctxFail("publisher name on a produced message", message.PublisherNameFromCtx(ctx), pubs[w.pub].String(), w)
					}
				}
				for _, m := range call.Msgs {
					hn := m.Metadata.Get("handler")
					if hn == "" {
						continue
					}
					if own := m.Context().Value(ownCtxKey{}); own != m.UUID {
						vs.Fail("publishing", "produced message %s reaches the publisher with the context of %v (its own context was replaced)", m.UUID, own)
					}
					if got := message.HandlerNameFromCtx(m.Context()); got != hn {
						vs.Fail("context", "produced message of %s reaches publisher p%d with handler name %q in its context", hn, pi, got)
					}
					if got := message.PublishTopicFromCtx(m.Context()); got != call.Topic {
						vs.Fail("context", "produced message of %s published on %q has publish topic %q in its context", hn, call.Topic, got)
					}
				}
				return ""
			}
		}
		go func() {
			if err := r.Run(context.Background()); err != nil {
				vs.Fail("run-result", "%v", err)
			}
		}()
		<-r.Running()
		vs.Quiesce()

		// ---- oracle ---------------------------------------------------------------------------
		// every handler is invoked exactly with the messages of its (subscriber, topic)
		got := map[string]int{}
		for _, iv := range invs {
			got[fmt.Sprintf("%s<-%s", ws[iv.h].name, iv.uuid)]++
		}
		want := map[string]int{}
		for _, w := range ws {
			for i := 0; i < msgsPerTopic; i++ {
				want[fmt.Sprintf("%s<-s%d.%s.m%d", w.name, w.sub, topics[w.topic], i)]++
			}
		}
		if d := diff(want, got); d != "" {
			vs.Fail("routing", "handler invocations differ from the wiring %s: %s", describe(ws), d)
		}
		// every publisher call belongs to exactly one invocation: its handler's publisher, its publish topic, the same objects in order
		wantCalls, gotCalls := map[string]int{}, map[string]int{}
		for _, iv := range invs {
			w := ws[iv.h]
			if len(iv.outs) > 0 && !w.noPub {
				wantCalls[sig(pubs[w.pub].Name, ptopics[w.ptopic], iv.outs)]++
			}
		}
		for _, p := range pubs {
			for _, c := range p.Snapshot() {
				gotCalls[sig(p.Name, c.Topic, c.Msgs)]++
			}
		}
		if d := diff(wantCalls, gotCalls); d != "" {
			vs.Fail("publishing", "publisher calls differ from what the handlers returned (wiring %s): %s", describe(ws), d)
		}
		// settlement: no-publisher handler whose chain returns messages gets a Nack, the others an Ack
		for si, s := range subs {
			for _, d := range s.Snapshot() {
				_ = si
				st := hx.SettlementOf(d.Msg)
				if st == "unsettled" {
					vs.Fail("settlement", "delivery %s on %s is unsettled at quiescence", d.UUID, d.Topic)
				}
			}
		}
		npNacked := 0
		if withNoPub {
			w := ws[len(ws)-1]
			for _, d := range subs[w.sub].Snapshot() {
				if d.Topic == topics[w.topic] && d.Nacked() {
					npNacked++
				}
			}
			if npNacked < msgsPerTopic {
				vs.Fail("nopub-outputs-nack", "no-publisher handler whose chain returns messages: %d of %d deliveries nacked", npNacked, msgsPerTopic)
			}
		}
		vs.Note("%s invocations=%v", describe(ws), got)
	}}
}

func describe(ws []wiring) string {
	var p []string
	for _, w := range ws {
		if w.noPub {
			p = append(p, fmt.Sprintf("%s(s%d,t%d, no publisher, nil publisher through AddHandler=%v)", w.name, w.sub, w.topic+1, w.nilPub))
			continue
		}
		p = append(p, fmt.Sprintf("%s(s%d,t%d->p%d,o%d,%s)", w.name, w.sub, w.topic+1, w.pub, w.ptopic+1, shapeNames[w.shape]))
	}
	return strings.Join(p, " ")
}

func diff(want, got map[string]int) string {
	var out []string
	for k, v := range want {
		if got[k] != v {
			out = append(out, fmt.Sprintf("%s: expected %d, got %d", k, v, got[k]))
		}
	}
	for k, v := range got {
		if _, ok := want[k]; !ok {
			out = append(out, fmt.Sprintf("%s: unexpected x%d", k, v))
		}
	}
	sort.Strings(out)
	return strings.Join(out, "; ")
}

func init() {
	add := func(tier reg.Tier, w int, H int, np bool, shapes []int, n, cq, ct int) {
		sc := scenario(H, np, shapes, n, cq)
		reg.AddW("C08", sc.Name, tier, w, func(t reg.Tier) *explore.Scenario {
			if t == reg.Thorough {
				return scenario(H, np, shapes, n, ct)
			}
			return scenario(H, np, shapes, n, cq)
		})
	}
	// every wiring (handlers 1.. choose subscriber/topic/publisher/publish-topic from the pools), every
	// combination of output shapes: one schedule per program (c = -1 here means "data choices only")
	for s0 := 0; s0 < 5; s0++ {
		add(reg.Quick, 1, 1, false, []int{s0}, 2, 2, 3)
		for s1 := 0; s1 < 5; s1++ {
			add(reg.Quick, 2, 2, false, []int{s0, s1}, 1, -1, -1)
			add(reg.Thorough, 10, 2, false, []int{s0, s1}, 2, 0, 0)
			for s2 := 0; s2 < 5; s2++ {
				tier := reg.Thorough
				if s0 <= s1 && s1 <= s2 && (s0+s1+s2)%3 == 0 {
					tier = reg.Quick
				}
				add(tier, 10, 3, false, []int{s0, s1, s2}, 1, -1, -1)
			}
		}
	}
	add(reg.Quick, 5, 1, true, []int{1}, 1, 1, 2)
	add(reg.Quick, 10, 2, true, []int{2, 3}, 1, -1, -1)
	add(reg.Quick, 10, 3, true, []int{1, 4, 0}, 1, -1, -1)
	// schedules: a few fixed shapes with preemptions
	add(reg.Quick, 20, 2, false, []int{1, 3}, 1, 0, 1)
	add(reg.Quick, 20, 2, false, []int{4, 4}, 1, 0, 1)
	// routers with a publisher and a subscriber decorator
	for _, sh := range [][]int{{0}, {1}, {2}, {3}, {4}, {1, 3}, {4, 4}, {2, 0}, {3, 1, 4}} {
		sh := sh
		sc := scenarioD(len(sh), false, sh, 1, -1, false, true)
		reg.AddW("C08", sc.Name, reg.Quick, 5, func(t reg.Tier) *explore.Scenario { return scenarioD(len(sh), false, sh, 1, -1, false, true) })
	}
	reg.AddW("C08", scenarioD(2, true, []int{1, 3}, 1, -1, false, true).Name, reg.Quick, 5, func(t reg.Tier) *explore.Scenario { return scenarioD(2, true, []int{1, 3}, 1, -1, false, true) })
	// several messages in flight on one handler, dispatch goroutines may start late
	for _, sh := range []int{0, 1, 3} {
		sh := sh
		sc := scenarioX(1, false, []int{sh}, 2, 1, true)
		reg.AddW("C08", sc.Name, reg.Quick, 20, func(t reg.Tier) *explore.Scenario {
			if t == reg.Thorough {
				return scenarioX(1, false, []int{sh}, 3, 1, true)
			}
			return scenarioX(1, false, []int{sh}, 2, 1, true)
		})
	}
}
