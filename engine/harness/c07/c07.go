// Package c07: GoChannel Close and subscription cancel always terminate safely (bare and behind
// MessageTransform subscriber decorators).
package c07

import (
	"context"
	"fmt"
	"strings"

	"github.com/ThreeDotsLabs/watermill/message"

	"verif/explore"
	"verif/harness/hx"
	"verif/harness/reg"
	"verif/vs"
)

type spec struct {
	Cfg      hx.GCfg
	Deco     int    // number of MessageTransform subscriber decorators in front of the GoChannel
	Consumer string // ack | hold | nack1 | noread
	Fallback int    // preemption bound of the fallback search when DPOR does not finish in DPORSec
	DPORSec  float64
	Backlog  int    // persistent mode: messages published before the first subscription (replayed to every Subscribe)
	Actors   string // e.g. "close", "close+close", "close+subscribe", "cancel", "cancel+close", "cancel+subscribe", "close+publish2"
	C        int
}

func (s spec) name() string {
	if s.Backlog > 0 {
		return fmt.Sprintf("%s/deco%d/%s/backlog%d/%s", s.Cfg, s.Deco, s.Consumer, s.Backlog, s.Actors)
	}
	return fmt.Sprintf("%s/deco%d/%s/%s", s.Cfg, s.Deco, s.Consumer, s.Actors)
}

func scenario(sp spec) *explore.Scenario {
	return &explore.Scenario{
		Name: sp.name(), C: sp.Fallback, DPOR: true, DPORSeconds: sp.DPORSec,
		Opts: vs.Options{PostRelease: false, SpawnYield: sp.Backlog > 0},
		Body: func() { body(sp) },
	}
}

func leaked() []string {
	var out []string
	for _, a := range vs.Alive() {
		if strings.Contains(a.Site, "pubsub/gochannel/") || strings.Contains(a.Site, "message/decorator.go") {
			out = append(out, fmt.Sprintf("g%s spawned at %s blocked in %s", a.ID, a.Site, a.Op))
		}
	}
	return out
}

func body(sp spec) {
	g := sp.Cfg.New()
	var sub message.Subscriber = g
	for i := 0; i < sp.Deco; i++ {
		d, err := message.MessageTransformSubscriberDecorator(func(m *message.Message) { m.Metadata.Set("deco", "x") })(sub)
		if err != nil {
			vs.Fail("setup", "%v", err)
			return
		}
		sub = d
	}
	for i := 0; i < sp.Backlog; i++ {
		if err := g.Publish("t", hx.Msg(fmt.Sprintf("old%d", i))); err != nil {
			vs.Fail("publish-error", "%v", err)
		}
	}
	ctx1, cancel1 := context.WithCancel(context.Background())
	ch1, err := sub.Subscribe(ctx1, "t")
	if err != nil {
		vs.Fail("subscribe-error", "%v", err)
		return
	}
	withSub2 := strings.Contains(sp.Actors, "cancel")
	var ch2 <-chan *message.Message
	if withSub2 {
		ch2, err = sub.Subscribe(context.Background(), "t")
		if err != nil {
			vs.Fail("subscribe-error", "%v", err)
			return
		}
	}
	closed1, closed2 := false, false
	got2 := map[string]bool{}
	// subscription 1: behaviour under test
	go func() {
		switch sp.Consumer {
		case "noread":
			return
		case "hold":
			if _, ok := <-ch1; !ok {
				closed1 = true
				return
			}
			// never settles, waits for the channel to close
			for range ch1 {
			}
			closed1 = true
		case "nack1":
			att := map[string]int{}
			for m := range ch1 {
				att[m.UUID]++
				if att[m.UUID] == 1 {
					m.Nack()
				} else {
					m.Ack()
				}
			}
			closed1 = true
		default:
			for m := range ch1 {
				m.Ack()
			}
			closed1 = true
		}
	}()
	// subscription 2 always reads and acks
	if withSub2 {
		go func() {
			for m := range ch2 {
				got2[m.UUID] = true
				m.Ack()
			}
			closed2 = true
		}()
	}
	var wg vs.WaitGroup
	run := func(f func()) {
		wg.Add(1)
		go func() {
			defer wg.Done()
			f()
		}()
	}
	closeCalled := false
	closeReturned := false
	var ch3 <-chan *message.Message
	sub3OK := false
	var ch0 <-chan *message.Message // subscription made with a context that is already cancelled
	for _, a := range strings.Split(sp.Actors, "+") {
		switch a {
		case "close":
			closeCalled = true
			run(func() {
				if err := sub.Close(); err != nil {
					vs.Fail("close-error", "Close returned %v", err)
				}
				vs.Observe("close-returned")
				closeReturned = true // same transition as the observation
				// whichever Close call it is (the first, or one overlapping it): once it has returned, the output
				// channels that existed when it was called are closed
				if !vs.PeekClosed(ch1) {
					vs.Fail("channels-closed", "a Close call returned while the output channel of subscription 1 was still open")
				}
				if withSub2 && !vs.PeekClosed(ch2) {
					vs.Fail("channels-closed", "a Close call returned while the output channel of subscription 2 was still open")
				}
			})
		case "cancel":
			run(func() { cancel1() })
		case "subscribe":
			run(func() {
				c, err := sub.Subscribe(context.Background(), "t")
				if err == nil {
					// both events are observations (totally ordered); right after ours: if a Close call has
					// already returned, this subscription's channel must be closed by now
					vs.Observe("subscribe-returned")
					if closeReturned && !vs.PeekClosed(c) {
						vs.Fail("closed-rejects", "Close has returned, yet a Subscribe call returned successfully with an open output channel")
					}
					ch3, sub3OK = c, true
					go func() {
						for m := range c {
							m.Ack()
						}
					}()
				}
			})
		case "deadctx":
			run(func() {
				ctx0, cancel0 := context.WithCancel(context.Background())
				cancel0()
				if c, err := sub.Subscribe(ctx0, "t"); err == nil {
					ch0 = c // nobody reads it: it is closed because its context has ended
				}
			})
		case "pub":
			run(func() { g.Publish("t", hx.Msg("m0")) })
		case "pub2":
			run(func() { g.Publish("t", hx.Msg("m1")) })
		}
	}
	wg.Wait() // hang = a Close / cancel / Publish / Subscribe call that never returns
	if !closeCalled && strings.Contains(sp.Actors, "cancel") {
		// cancelling subscription 1 must leave subscription 2 working
		vs.Quiesce()
		if sp.Consumer != "noread" && !closed1 {
			vs.Fail("cancel-closes-channel", "context of subscription 1 cancelled but its channel was not closed at quiescence")
		}
		if sp.Consumer == "noread" && !vs.PeekClosed(ch1) {
			// nobody reads it: it must be closed all the same (an undelivered message is dropped, not kept waiting)
			vs.Fail("cancel-closes-channel", "context of subscription 1 cancelled but its (unread) channel was not closed at quiescence")
		}
		if closed2 {
			vs.Fail("cancel-leaves-others", "cancelling subscription 1 closed subscription 2")
		}
		if err := g.Publish("t", hx.Msg("after")); err != nil {
			vs.Fail("cancel-leaves-others", "Publish after cancelling one subscription failed: %v", err)
		}
		vs.Quiesce()
		if !got2["after"] {
			vs.Fail("cancel-leaves-others", "subscription 2 did not receive a message published after subscription 1 was cancelled")
		}
	}
	if ch0 != nil && !closeCalled {
		vs.Quiesce()
		if !vs.PeekClosed(ch0) {
			vs.Fail("cancel-closes-channel", "a subscription made with an already cancelled context still has an open output channel at quiescence")
		}
		if closed1 {
			vs.Fail("cancel-leaves-others", "the subscription with the cancelled context closed subscription 1")
		}
	}
	if err := sub.Close(); err != nil {
		vs.Fail("close-error", "Close returned %v", err)
	}
	// after Close returned
	if err := g.Publish("t", hx.Msg("late")); err == nil {
		vs.Fail("closed-rejects", "Publish after Close returned nil")
	}
	if _, err := sub.Subscribe(context.Background(), "t"); err == nil {
		vs.Fail("closed-rejects", "Subscribe after Close returned no error")
	}
	vs.Quiesce()
	if !vs.PeekClosed(ch1) {
		vs.Fail("channels-closed", "output channel of subscription 1 not closed after Close returned")
	}
	if withSub2 && !vs.PeekClosed(ch2) {
		vs.Fail("channels-closed", "output channel of subscription 2 not closed after Close returned")
	}
	if ch0 != nil && !vs.PeekClosed(ch0) {
		vs.Fail("channels-closed", "output channel of the subscription made with a cancelled context not closed after Close returned")
	}
	if sub3OK && !vs.PeekClosed(ch3) {
		vs.Fail("channels-closed", "output channel of the concurrently created subscription not closed after Close returned")
	}
	if l := leaked(); len(l) > 0 {
		vs.Fail("goroutine-leak", "Pub/Sub goroutines alive after Close returned: %s", strings.Join(l, "; "))
	}
	vs.Note("closed1=%v got2=%v", closed1, len(got2))
}

func init() {
	add := func(tier reg.Tier, w int, sp spec, ct int) {
		sc := scenario(sp)
		reg.AddW("C07", sc.Name, tier, w, func(t reg.Tier) *explore.Scenario {
			x := sp
			x.Fallback, x.DPORSec = 1, 3
			if sp.C == 0 { // a quick-tier copy of a thorough scenario: no preemptions in the fallback search
				x.Fallback = 0
			}
			if t == reg.Thorough {
				x.Fallback, x.DPORSec = 2, 120
			}
			return scenario(x)
		})
	}
	type aset struct {
		actors string
		cq, ct int // preemption bounds (quick, thorough); -1 = every interleaving (DPOR)
		tier   reg.Tier
	}
	withPub := []aset{{"pub+close", -1, -1, reg.Quick}, {"pub+cancel", -1, -1, reg.Quick},
		{"pub+close+close", 1, 2, reg.Thorough}, {"pub+close+subscribe", 1, 2, reg.Thorough}, {"pub+cancel+close", 1, 2, reg.Thorough}, {"pub+pub2+close", 1, 2, reg.Thorough}}
	noPub := []aset{{"close+close", -1, -1, reg.Quick}, {"close+subscribe", -1, -1, reg.Quick}, {"cancel+close", -1, -1, reg.Quick}, {"cancel+subscribe", -1, -1, reg.Quick}}
	// Close / cancel / Subscribe while the backlog of a persistent topic is being replayed
	for _, cfg := range hx.AllGCfg(0, 1) {
		if !cfg.Persistent {
			continue
		}
		for _, deco := range []int{0, 1} {
			for _, cons := range []string{"ack", "hold"} {
				if deco == 0 && cfg.Buf == 0 && cons == "ack" {
					// the backlog is replayed to a subscription whose context is already cancelled
					add(reg.Quick, 1, spec{Cfg: cfg, Deco: deco, Consumer: cons, Backlog: 1, Actors: "deadctx", C: -1}, -1)
					add(reg.Quick, 1, spec{Cfg: cfg, Deco: deco, Consumer: cons, Backlog: 1, Actors: "deadctx+close", C: -1}, -1)
				}
				for _, a := range []string{"close", "cancel", "close+subscribe"} {
					tier := reg.Quick
					if deco == 1 || cfg.Buf > 0 || a == "cancel" {
						tier = reg.Thorough
					}
					add(tier, 1, spec{Cfg: cfg, Deco: deco, Consumer: cons, Backlog: 1, Actors: a, C: -1}, -1)
					if a == "close" && deco == 0 && cfg.Buf == 0 {
						// the replay loop starts one goroutine per message: with two messages, and `go` as a
						// scheduling point, Close can run between the two starts
						add(reg.Quick, 1, spec{Cfg: cfg, Deco: deco, Consumer: cons, Backlog: 2, Actors: a, C: -1}, -1)
					}
				}
			}
		}
	}
	for _, cfg := range hx.AllGCfg(0, 1) {
		for _, deco := range []int{0, 1, 2} {
			for _, a := range withPub {
				for _, cons := range []string{"ack", "hold", "nack1", "noread"} {
					tier := a.tier
					if deco == 2 {
						tier = reg.Thorough
					}
					// a Subscribe in flight while a blocking Publish waits for its unsettled message, then Close: Close
					// is what releases the two (in quick for the decorated, blocking configurations)
					cq := a.cq
					if a.actors == "pub+close+subscribe" && deco == 1 && cfg.Blocking && cfg.Buf == 0 && (cons == "hold" || cons == "noread") {
						tier, cq = reg.Quick, 0
					}
					add(tier, 1, spec{Cfg: cfg, Deco: deco, Consumer: cons, Actors: a.actors, C: cq}, a.ct)
				}
			}
			// a Subscribe whose context is already cancelled, alongside a Publish or a Close
			if deco < 2 {
				for _, cons := range []string{"ack", "nack1"} {
					tier := reg.Quick
					if cons == "nack1" && deco == 1 { // (keeps the quick tier well inside its budget)
						tier = reg.Thorough
					}
					add(tier, 1, spec{Cfg: cfg, Deco: deco, Consumer: cons, Actors: "deadctx+pub", C: -1}, -1)
				}
				tier := reg.Quick
				if deco == 1 && cfg.Buf > 0 {
					tier = reg.Thorough
				}
				add(tier, 1, spec{Cfg: cfg, Deco: deco, Consumer: "hold", Actors: "deadctx+pub+close", C: 0}, 1)
			}
			for _, a := range noPub {
				tier := a.tier
				if deco == 2 {
					tier = reg.Thorough
				}
				add(tier, 1, spec{Cfg: cfg, Deco: deco, Consumer: "ack", Actors: a.actors, C: a.cq}, a.ct)
			}
			// two overlapping Close calls while a message sits undelivered / unsettled (the first one has to wait)
			if deco < 2 && cfg.Buf == 0 {
				for _, cons := range []string{"hold", "noread"} {
					add(reg.Quick, 1, spec{Cfg: cfg, Deco: deco, Consumer: cons, Actors: "pub+close+close", C: 1}, 2)
				}

			}
		}
	}
}
