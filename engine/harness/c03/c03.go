// Package c03: Message Ack/Nack is a linearizable first-wins state machine.
package c03

import (
	"fmt"

	"github.com/ThreeDotsLabs/watermill/message"
	"github.com/anishathalye/porcupine"

	"verif/explore"
	"verif/harness/reg"
	"verif/vs"
)

const (
	opAck = iota
	opNack
	opReadAcked
	opReadNacked
)

var opName = []string{"Ack", "Nack", "Acked?", "Nacked?"}

func newMsg(kind int) *message.Message {
	switch kind {
	case 0:
		return message.NewMessage("u", []byte("p"))
	case 1:
		return message.NewMessage("u", []byte("p")).Copy()
	case 2:
		return &message.Message{}
	case 3: // a copy of an already acked message starts unsettled
		m := message.NewMessage("u", []byte("p"))
		m.Ack()
		return m.Copy()
	default: // a copy of an already nacked zero-value message
		m := &message.Message{}
		m.Nack()
		return m.Copy()
	}
}

var kindName = []string{"new", "copy", "zero", "copy-of-acked", "copy-of-nacked-zero"}

func isClosed(ch <-chan struct{}) bool {
	select {
	case <-ch:
		return true
	default:
		return false
	}
}

// reference machine: 0 unsettled, 1 acked, 2 nacked
func refStep(st int, op int) (int, bool) {
	switch op {
	case opAck:
		if st == 2 {
			return st, false
		}
		return 1, true
	case opNack:
		if st == 1 {
			return st, false
		}
		return 2, true
	case opReadAcked:
		return st, st == 1
	default:
		return st, st == 2
	}
}

func apply(m *message.Message, op int) bool {
	switch op {
	case opAck:
		return m.Ack()
	case opNack:
		return m.Nack()
	case opReadAcked:
		return isClosed(m.Acked())
	default:
		return isClosed(m.Nacked())
	}
}

// sequential: every sequence of the given length over the four operations, step-by-step agreement.
func seqScenario(kind, length int) *explore.Scenario {
	return &explore.Scenario{
		Name: fmt.Sprintf("seq/%s/len%d", kindName[kind], length),
		C:    0, F: 0,
		Body: func() {
			m := newMsg(kind)
			st := 0
			hist := ""
			for i := 0; i < length; i++ {
				op := vs.Choose(4, 0, "op")
				var want bool
				st, want = refStep(st, op)
				got := apply(m, op)
				hist += opName[op] + " "
				if got != want {
					vs.Fail("seq-agreement", "after [%s] on %s message: got %v, reference %v", hist, kindName[kind], got, want)
					return
				}
				a, n := isClosed(m.Acked()), isClosed(m.Nacked())
				if a && n {
					vs.Fail("both-closed", "after [%s]: Acked() and Nacked() both closed", hist)
					return
				}
				if a != (st == 1) || n != (st == 2) {
					vs.Fail("channel-state", "after [%s]: acked-closed=%v nacked-closed=%v, reference state %d", hist, a, n, st)
					return
				}
			}
			vs.Note("%s=> %d", hist, st)
		},
	}
}

type call struct {
	client    int
	op        int
	out       bool
	call, ret int64
}

var model = porcupine.Model{
	Init: func() interface{} { return 0 },
	Step: func(state, input, output interface{}) (bool, interface{}) {
		st, want := refStep(state.(int), input.(int))
		return want == output.(bool), st
	},
	Equal: func(a, b interface{}) bool { return a.(int) == b.(int) },
}

// concurrent: each goroutine issues its script on one shared message; every interleaving.
func concScenario(kind int, scripts [][]int, c int) *explore.Scenario {
	name := fmt.Sprintf("conc/%s/", kindName[kind])
	for i, s := range scripts {
		if i > 0 {
			name += "|"
		}
		for _, o := range s {
			name += opName[o][:1]
			if o >= opReadAcked {
				name += "?"
			}
		}
	}
	return &explore.Scenario{
		Name: name, C: c, F: 0, NoCache: true,
		Body: func() {
			m := newMsg(kind)
			var wg vs.WaitGroup
			hist := make([][]call, len(scripts))
			for gi, script := range scripts {
				gi, script := gi, script
				wg.Add(1)
				go func() {
					defer wg.Done()
					for _, op := range script {
						c := call{client: gi, op: op, call: int64(vs.Step())}
						c.out = apply(m, op)
						c.ret = int64(vs.Step())
						hist[gi] = append(hist[gi], c)
					}
				}()
			}
			wg.Wait()
			var ops []porcupine.Operation
			desc := ""
			for _, h := range hist {
				for _, c := range h {
					ops = append(ops, porcupine.Operation{ClientId: c.client, Input: c.op, Output: c.out, Call: c.call, Return: c.ret})
					desc += fmt.Sprintf("g%d:%s=%v[%d,%d] ", c.client, opName[c.op], c.out, c.call, c.ret)
				}
			}
			if !porcupine.CheckOperations(model, ops) {
				vs.Fail("linearizable", "history not linearizable w.r.t. first-wins machine: %s", desc)
			}
			a, n := isClosed(m.Acked()), isClosed(m.Nacked())
			if a && n {
				vs.Fail("both-closed", "Acked() and Nacked() both closed after %s", desc)
			}
			settles := false
			for _, s := range scripts {
				for _, o := range s {
					if o <= opNack {
						settles = true
					}
				}
			}
			if settles && !a && !n {
				vs.Fail("channel-state", "an Ack/Nack was issued but neither channel is closed: %s", desc)
			}
			// all callers agree on the winner
			for _, h := range hist {
				for _, c := range h {
					if c.op == opAck && c.out != a || c.op == opNack && c.out != n {
						vs.Fail("same-winner", "%s returned %v but final state is acked=%v nacked=%v (%s)", opName[c.op], c.out, a, n, desc)
					}
				}
			}
			vs.Note("acked=%v %s", a, outcomesOnly(hist))
		},
	}
}

func outcomesOnly(hist [][]call) string {
	s := ""
	for _, h := range hist {
		for _, c := range h {
			s += fmt.Sprintf("%s=%v ", opName[c.op], c.out)
		}
		s += "| "
	}
	return s
}

func init() {
	for kind := 0; kind < 5; kind++ {
		kind := kind
		reg.Add("C03", fmt.Sprintf("seq/%s", kindName[kind]), reg.Quick, func(t reg.Tier) *explore.Scenario {
			if t == reg.Thorough {
				return seqScenario(kind, 8)
			}
			return seqScenario(kind, 6)
		})
	}
	A, N, RA, RN := opAck, opNack, opReadAcked, opReadNacked
	quick := [][][]int{
		{{A}, {N}},
		{{A, N}, {N, A}},
		{{A}, {N}, {A}},
		{{A}, {N}, {RA, RN}},
		{{A, RN}, {N, RA}},
	}
	thorough := [][][]int{
		{{A, N}, {N, A}, {RA, RN}},
		{{A}, {N}, {A}, {N}},
		{{A, A}, {N, N}, {A, N}},
		{{A, RN}, {N, RA}, {N}},
	}
	for kind := 0; kind < 3; kind++ {
		kind := kind
		for _, s := range quick {
			s := s
			sc := concScenario(kind, s, -1)
			reg.Add("C03", sc.Name, reg.Quick, func(t reg.Tier) *explore.Scenario { return concScenario(kind, s, -1) })
		}
		for _, s := range thorough {
			s := s
			sc := concScenario(kind, s, -1)
			reg.AddW("C03", sc.Name, reg.Thorough, 20, func(t reg.Tier) *explore.Scenario { return concScenario(kind, s, -1) })
		}
	}
}
