module verif

go 1.22.0

toolchain go1.23.5

require (
	github.com/ThreeDotsLabs/watermill v0.0.0
	github.com/anishathalye/porcupine v1.3.0
	github.com/gogo/protobuf v1.3.2
	github.com/pkg/errors v0.9.1
	github.com/prometheus/client_golang v1.20.2
	github.com/sony/gobreaker v1.0.0
	golang.org/x/tools v0.29.0
	google.golang.org/protobuf v1.34.2
)

require (
	github.com/beorn7/perks v1.0.1 // indirect
	github.com/cenkalti/backoff/v3 v3.2.2 // indirect
	github.com/cespare/xxhash/v2 v2.3.0 // indirect
	github.com/go-chi/chi/v5 v5.1.0 // indirect
	github.com/google/uuid v1.6.0 // indirect
	github.com/hashicorp/errwrap v1.1.0 // indirect
	github.com/hashicorp/go-multierror v1.1.1 // indirect
	github.com/klauspost/compress v1.17.9 // indirect
	github.com/lithammer/shortuuid/v3 v3.0.7 // indirect
	github.com/munnerz/goautoneg v0.0.0-20191010083416-a7dc8b61c822 // indirect
	github.com/oklog/ulid v1.3.1 // indirect
	github.com/prometheus/client_model v0.6.1 // indirect
	github.com/prometheus/common v0.55.0 // indirect
	github.com/prometheus/procfs v0.15.1 // indirect
	golang.org/x/sys v0.29.0 // indirect
)

replace github.com/ThreeDotsLabs/watermill => /repo
