// Package vs is the virtual runtime under which the rewritten watermill code is model-checked.
//
// Inside an execution (W != nil) every goroutine created with Go is cooperative: exactly one holds the
// baton; immediately before each visible operation (channel operation, select, lock, wait-group,
// context cancel/Err, timer, ...) it publishes the operation and yields; the scheduler asks the
// explorer which *enabled* goroutine moves next, applies that goroutine's operation atomically to the
// virtual objects and lets it (and every goroutine the operation completed) run to its next visible
// operation. Outside an execution every shim performs the native operation, so the rewritten tree
// behaves like the original one (used for the repository's own test-suite and the -race pass).
package vs

import (
	"fmt"
	"runtime"
	"strconv"
	"strings"
)

// W is the world of the execution in progress, nil outside executions.
var W *World

type opKind uint8

const (
	opNop opKind = iota
	opSend
	opRecv
	opSelect
	opLock
	opRLock
	opWAnnounce
	opWAcquire
	opWait
	opOnce
	opQuiesce
	opChoose
)

var opNames = [...]string{"nop", "send", "recv", "select", "lock", "rlock", "wlock-announce", "wlock-acquire", "wg-wait", "once", "quiesce", "choose"}

type selCase struct {
	ch   *vchan
	send bool
	val  any
}

// op is a pending visible operation.
type op struct {
	kind   opKind
	name   string // for nops: what it is (trace only)
	ch     *vchan
	val    any
	mu     *Mutex
	rw     *RWMutex
	wg     *WaitGroup
	once   *Once
	cases  []selCase
	deflt  bool
	n      int // opChoose: alternatives
	cost   int // opChoose: fault cost of non-zero answers
	obj    *uint64
	eff    func()           // opNop: effect applied atomically when scheduled
	fpFn   func() []*uint64 // dynamic footprint (context cancel: the subtree)
	ro     bool             // read-only on its objects (independent of other read-only operations on them)
	global bool             // dependent with every other operation (partial-order reduction)

	// results
	rval     any
	rok      bool
	chosen   int
	panicVal any
	site     string
}

// G is a controlled goroutine.
type G struct {
	ID      string // schedule-independent identity: path of spawn indexes
	Site    string // spawn site (file:line)
	Name    string
	nspawn  int
	wake    chan struct{}
	dead    chan struct{}
	pending *op
	done    bool
	exited  bool
	killed  bool
	started bool
	hash    uint64
	body    bool
	idseq   int
	path    []int32
	idh     uint64
	sitePC  uintptr
	parent  *G
	Index   int // creation order within the execution
	// parked: the goroutine was blocked in its pending operation at a point where nothing could run
	// (a quiescence point or a clock advance of the quiescent time policy), so it is really parked there,
	// not merely about to arrive: a non-blocking send/receive of another goroutine finds it for certain.
	parked bool
}

// IDH is a schedule-independent 64-bit identity of the goroutine.
func (g *G) IDH() uint64 { return g.idh }

// Parent is the goroutine that spawned g (nil for the body and timer goroutines).
func (g *G) Parent() *G { return g.parent }

// Done reports whether g has finished.
func (g *G) Done() bool { return g.done }

// HasPending reports whether g is parked at a visible operation.
func (g *G) HasPending() bool { return g.pending != nil }

// IsQuiesce reports whether g's pending operation is Quiesce (never co-enabled with anything).
func (g *G) IsQuiesce() bool { return g.pending != nil && g.pending.kind == opQuiesce }

// Goroutines lists all goroutines of the execution in creation order.
func (w *World) Goroutines() []*G { return w.gs }

// LastPartners lists the goroutines whose blocked operation was completed by the last transition.
func (w *World) LastPartners() []*G { return w.lastPartners }

type Policy int

const (
	// Quiescent: the virtual clock advances to the next timer only when no goroutine is enabled.
	Quiescent Policy = iota
	// Nondet: additionally the earliest timer may fire at any scheduling point (cost 1 fault unit).
	Nondet
)

type Options struct {
	PostRelease bool   // extra scheduling point right after release-like operations
	Time        Policy // clock policy
	MaxSteps    int    // step horizon
	TimeHorizon int64  // virtual ns after which the clock is not advanced any more
	Trace       bool   // record the operation trace with source positions
	LazyStart   bool   // a new goroutine starts only when scheduled (its start is a visible step): explores
	// delayed goroutine starts, e.g. a closure reading a loop variable the parent reassigns
	Jitter     bool // enumerate math/rand.Float64 answers (back-off jitter)
	SpawnYield bool // the `go` statement is a scheduling point of the parent as well (others may run between
	// two goroutine starts of one loop): exposes unsynchronised accesses around spawn loops
}

// ThreadAlt describes one alternative of a scheduling decision.
type ThreadAlt struct {
	G     *G
	Timer bool // fire earliest timer instead of running a goroutine
}

// Chooser is implemented by the explorer.
type Chooser interface {
	// Thread picks the next transition; curEnabled tells whether alternative 0 is the goroutine that
	// ran last (so that any other pick is a preemption). A negative answer aborts the execution.
	Thread(w *World, alts []ThreadAlt, curEnabled bool) int
	// Data picks among n free alternatives (ready select cases, rendez-vous partner, harness Choose).
	// cost is the fault cost of a non-zero answer.
	Data(w *World, n int, cost int, what string) int
	// End is called once when the execution is over, before the goroutines are torn down.
	End(w *World)
}

type AliveG struct {
	ID, Site, Name, Op, OpSite string
	Enabled                    bool
}

type Failure struct {
	Clause string
	Msg    string
}

// Result of one execution.
type Result struct {
	Steps       int
	Aborted     bool // pruned by the explorer
	Horizon     bool // step or time horizon hit
	BodyDone    bool
	Panic       string // uncaught panic in a controlled goroutine
	PanicG      string
	Failures    []Failure
	Alive       []AliveG // goroutines not finished at the end
	Obs         []string // observation log
	Trace       []string
	VirtualTime int64
	EngineError string
}

type World struct {
	gs           []*G
	cur          *G // goroutine of the last transition
	running      *G // goroutine holding the baton
	resumed      []*G
	chans        map[uintptr]*vchan
	now          int64
	timers       []*vtimer
	tseq         int
	ch           Chooser
	altBuf       []ThreadAlt
	opts         Options
	fin          chan struct{}
	ended        bool
	res          Result
	monitor      uint64
	Steps        int
	vals         map[any]any
	ctxSeq       int
	invs         []func() *Failure
	uuidSeq      int
	atomHash     uint64
	clockEpoch   int
	clockObj     uint64
	lastPartners []*G
}

const hashSeed = 0x9e3779b97f4a7c15

func mix(a uint64, bs ...uint64) uint64 {
	h := a
	for _, b := range bs {
		h ^= b + hashSeed + (h << 6) + (h >> 2)
		h *= 0xff51afd7ed558ccd
		h ^= h >> 33
	}
	return h
}

func hashStr(s string) uint64 {
	h := uint64(14695981039346656037)
	for i := 0; i < len(s); i++ {
		h ^= uint64(s[i])
		h *= 1099511628211
	}
	return h
}

// Run executes body as goroutine "0" of a fresh world under the given chooser.
func Run(opts Options, ch Chooser, body func()) Result {
	if W != nil {
		panic("vs.Run: nested execution")
	}
	if opts.MaxSteps == 0 {
		opts.MaxSteps = 20000
	}
	if opts.TimeHorizon == 0 {
		opts.TimeHorizon = int64(24 * 3600 * 1e9)
	}
	w := &World{chans: map[uintptr]*vchan{}, ch: ch, opts: opts, fin: make(chan struct{}, 1), monitor: 77, vals: map[any]any{}}
	W = w
	g0 := w.newG(nil, "body")
	g0.body = true
	w.launch(g0, body)
	w.running = g0
	w.cur = g0
	g0.wake <- struct{}{}
	<-w.fin
	w.finishResult()
	ch.End(w)
	// teardown: every goroutine that has not exited is released into runtime.Goexit.
	for _, g := range w.gs {
		if g.exited {
			continue
		}
		g.killed = true
		w.running = g
		g.wake <- struct{}{}
		<-g.dead
	}
	W = nil
	return w.res
}

func (w *World) newG(parent *G, site string) *G {
	g := &G{wake: make(chan struct{}, 1), dead: make(chan struct{}, 1), Site: site}
	if parent == nil {
		g.ID = "0"
		g.hash = 1
		g.path = []int32{0}
	} else {
		g.ID = parent.ID + "." + strconv.Itoa(parent.nspawn)
		g.hash = mix(parent.hash, uint64(parent.nspawn), 0x5157)
		g.path = append(append(make([]int32, 0, len(parent.path)+1), parent.path...), int32(parent.nspawn))
		parent.nspawn++
	}
	g.idh = hashStr(g.ID)
	g.parent = parent
	g.Index = len(w.gs)
	w.gs = append(w.gs, g)
	return g
}

func (w *World) launch(g *G, f func()) {
	go func() {
		defer func() {
			if g.killed {
				g.exited = true
				g.dead <- struct{}{}
				return
			}
			if r := recover(); r != nil {
				buf := make([]byte, 8192)
				n := runtime.Stack(buf, false)
				w.res.Panic = fmt.Sprintf("%v", r)
				w.res.PanicG = g.ID + " (" + g.site() + ")\n" + trimStack(string(buf[:n]))
				w.ended = true
			}
			g.done = true
			g.exited = true
			w.dispatch(g)
		}()
		<-g.wake
		if g.killed {
			return
		}
		g.started = true
		g.pending = nil
		f()
	}()
}

func trimStack(s string) string {
	lines := strings.Split(s, "\n")
	var out []string
	for _, l := range lines {
		if strings.Contains(l, "/vs/") && !strings.Contains(l, "panic") {
			continue
		}
		out = append(out, l)
		if len(out) > 40 {
			break
		}
	}
	return strings.Join(out, "\n")
}

// Go starts f as a controlled goroutine (native `go` outside executions).
func Go(f func()) {
	w := W
	if w == nil {
		go f()
		return
	}
	self := w.running
	if self.killed {
		runtime.Goexit()
	}
	g := w.newG(self, "")
	var pcs [1]uintptr
	if runtime.Callers(2, pcs[:]) == 1 {
		g.sitePC = pcs[0]
	}
	w.launch(g, f)
	if w.opts.LazyStart {
		g.pending = &op{kind: opNop, name: "goroutine-start", eff: func() { g.hash = mix(g.hash, 0x57a47) }}
	} else {
		w.resumed = append(w.resumed, g)
	}
	if w.opts.SpawnYield {
		w.yield(&op{kind: opNop, name: "go", global: true, eff: func() { self.hash = mix(self.hash, 0x60) }})
	}
}

func itoa(i int) string { return strconv.Itoa(i) }

func (g *G) site() string {
	if g.Site == "" && g.sitePC != 0 {
		f, _ := runtime.CallersFrames([]uintptr{g.sitePC}).Next()
		g.Site = origPos(f.File, f.Line)
	}
	return g.Site
}

// LineMap translates positions in rewritten files back to the original sources (set by vcheck).
var LineMap map[string]map[int]string

func origPos(file string, line int) string {
	if m, ok := LineMap[file]; ok {
		if p, ok := m[line]; ok {
			if k := strings.LastIndex(p, ":"); k > 0 {
				return shortFile(p[:k]) + p[k:]
			}
		}
	}
	return shortFile(file) + ":" + itoa(line)
}

func shortFile(f string) string {
	if i := strings.Index(f, "/repo/"); i >= 0 {
		return f[i+6:]
	}
	if i := strings.Index(f, "/verif/engine/"); i >= 0 {
		return f[i+14:]
	}
	if i := strings.Index(f, "/pkg/mod/"); i >= 0 {
		return f[i+9:]
	}
	return f
}

// yield publishes o as the pending operation of the running goroutine, and returns once the
// scheduler has picked this goroutine and applied the operation.
func (w *World) yield(o *op) {
	g := w.running
	if g.killed {
		runtime.Goexit()
	}
	if w.opts.Trace {
		o.site = callerSite()
	}
	g.pending = o
	g.parked = false
	w.dispatch(g)
	g.pending = nil
	if o.panicVal != nil {
		panic(o.panicVal)
	}
}

func callerSite() string {
	pcs := make([]uintptr, 16)
	n := runtime.Callers(3, pcs)
	frames := runtime.CallersFrames(pcs[:n])
	for {
		f, more := frames.Next()
		if !strings.Contains(f.File, "/engine/vs/") && f.File != "" {
			return origPos(f.File, f.Line)
		}
		if !more {
			break
		}
	}
	return "?"
}

// dispatch is called by a goroutine that arrived at a visible operation (or finished). It runs the
// scheduler inline and hands the baton to whoever moves next.
func (w *World) dispatch(self *G) {
	for {
		var next *G
		if w.ended {
			next = nil
		} else if len(w.resumed) > 0 {
			next = w.resumed[0]
			w.resumed = w.resumed[1:]
		} else {
			next = w.decide()
			if next == nil && !w.ended {
				continue // clock advanced or state changed: look again
			}
		}
		if next == nil {
			// execution over
			select {
			case w.fin <- struct{}{}:
			default:
			}
			if self.done {
				return
			}
			<-self.wake // parked until teardown
			runtime.Goexit()
		}
		if next == self {
			return
		}
		w.running = next
		next.wake <- struct{}{}
		if self.done {
			return
		}
		<-self.wake
		if self.killed {
			runtime.Goexit()
		}
		return
	}
}

func (w *World) bodyDone() bool { return w.gs[0].done }

// decide performs one scheduling decision and applies the chosen operation. It returns the
// goroutine that continues, or nil (with w.ended set when the execution is over).
func (w *World) decide() *G {
	w.Steps++
	if w.Steps > w.opts.MaxSteps {
		w.res.Horizon = true
		w.ended = true
		return nil
	}
	// every goroutine is at a visible operation now: a consistent cut for the invariants
	if len(w.res.Failures) == 0 {
		for _, inv := range w.invs {
			if f := inv(); f != nil {
				w.res.Failures = append(w.res.Failures, *f)
			}
		}
	}
	alts := w.altBuf[:0]
	curEnabled := false
	for _, g := range w.gs {
		if g.done || g.pending == nil || g.pending.kind == opQuiesce {
			continue
		}
		if w.enabled(g, g.pending) {
			if g == w.cur {
				curEnabled = true
			} else {
				alts = append(alts, ThreadAlt{G: g})
			}
		}
	}
	for i := 1; i < len(alts); i++ {
		for j := i; j > 0 && gLess(alts[j].G, alts[j-1].G); j-- {
			alts[j], alts[j-1] = alts[j-1], alts[j]
		}
	}
	if curEnabled {
		alts = append(alts, ThreadAlt{})
		copy(alts[1:], alts)
		alts[0] = ThreadAlt{G: w.cur}
	}
	w.altBuf = alts
	if len(alts) == 0 {
		w.markParked()
		// quiesce waiters run only when nothing else can
		for _, g := range w.gs {
			if !g.done && g.pending != nil && g.pending.kind == opQuiesce {
				alts = append(alts, ThreadAlt{G: g})
				break
			}
		}
	}
	if len(alts) == 0 {
		if w.bodyDone() || len(w.timers) == 0 {
			w.ended = true
			return nil
		}
		if !w.advanceClock() {
			w.res.Horizon = true
			w.ended = true
			return nil
		}
		return nil
	}
	if w.opts.Time == Nondet && len(w.timers) > 0 && w.timers[0].deadline <= w.opts.TimeHorizon {
		alts = append(alts, ThreadAlt{Timer: true})
	}
	idx := 0
	idx = w.ch.Thread(w, alts, curEnabled)
	if idx < 0 {
		w.res.Aborted = true
		w.ended = true
		return nil
	}
	a := alts[idx]
	if a.Timer {
		w.advanceClock()
		return nil
	}
	g := a.G
	w.cur = g
	w.lastPartners = w.lastPartners[:0]
	w.apply(g, g.pending)
	if w.opts.Trace {
		w.res.Trace = append(w.res.Trace, fmt.Sprintf("%4d g%-8s %-22s %s", w.Steps, g.ID, w.describe(g.pending), g.pending.site))
	}
	return g
}

// markParked: nothing is enabled, so every goroutine with a pending operation is blocked in it.
func (w *World) markParked() {
	for _, g := range w.gs {
		if !g.done && g.pending != nil && g.pending.kind != opQuiesce && !g.parked {
			g.parked = true
			g.hash = mix(g.hash, 0x9a27ed)
		}
	}
}

func gLess(a, b *G) bool {
	for i := 0; i < len(a.path) && i < len(b.path); i++ {
		if a.path[i] != b.path[i] {
			return a.path[i] < b.path[i]
		}
	}
	return len(a.path) < len(b.path)
}

func (w *World) describe(o *op) string {
	switch o.kind {
	case opNop:
		return o.name
	case opSelect:
		if o.chosen < 0 {
			return "select->default"
		}
		return fmt.Sprintf("select->case%d", o.chosen)
	case opChoose:
		return fmt.Sprintf("choose(%d)->%d", o.n, o.chosen)
	case opRecv:
		return fmt.Sprintf("recv ok=%v", o.rok)
	}
	return opNames[o.kind]
}

// CurID identifies the goroutine of the last transition (relevant to the explorer only while it is
// still enabled: only then does switching away cost a preemption).
func (w *World) CurID() uint64 { return w.cur.idh }

// Footprint returns the objects the pending operation of g touches (identified by the address of
// their hash word), whether it only reads them, and whether it must be treated as dependent with
// everything. Two transitions are independent iff neither is global and their footprints are
// disjoint or both are read-only.
func (w *World) Footprint(g *G) (objs []*uint64, ro bool, global bool) {
	o := g.pending
	if o == nil {
		return nil, false, true
	}
	switch o.kind {
	case opNop:
		if o.global {
			return nil, false, true
		}
		if o.fpFn != nil {
			return o.fpFn(), false, false
		}
		if o.obj != nil {
			return []*uint64{o.obj}, o.ro, false
		}
		return nil, o.ro, false
	case opChoose:
		return nil, false, false
	case opSend, opRecv:
		if o.ch == nil {
			return nil, false, false
		}
		return []*uint64{&o.ch.hash}, false, false
	case opSelect:
		for _, c := range o.cases {
			if c.ch != nil {
				objs = append(objs, &c.ch.hash)
			}
		}
		return objs, false, false
	case opLock:
		return []*uint64{&o.mu.hash}, false, false
	case opRLock:
		return []*uint64{&o.rw.whash}, true, false
	case opWAnnounce, opWAcquire:
		return []*uint64{&o.rw.whash}, false, false
	case opWait:
		return []*uint64{&o.wg.hash}, false, false
	case opOnce:
		return []*uint64{&o.once.hash}, false, false
	}
	return nil, false, true
}

// ParkFootprint lists the unbuffered channels on which g is (newly) parked: arriving at a blocking
// operation on an unbuffered channel changes what the other side can do (rendez-vous readiness), so it
// is an effect of the transition that brought g there.
func (w *World) ParkFootprint(g *G) []*uint64 {
	o := g.pending
	if o == nil || g.done {
		return nil
	}
	switch o.kind {
	case opSend, opRecv:
		if o.ch != nil && o.ch.cap == 0 {
			return []*uint64{&o.ch.hash}
		}
	case opSelect:
		var out []*uint64
		for _, c := range o.cases {
			if c.ch != nil && c.ch.cap == 0 {
				out = append(out, &c.ch.hash)
			}
		}
		return out
	}
	return nil
}

// DynamicFootprint reports whether g's pending operation has a footprint that can grow over time.
func (w *World) DynamicFootprint(g *G) bool { return g.pending != nil && g.pending.fpFn != nil }

// ClockEpoch counts clock advances (the explorer clears its sleep set when it changes).
func (w *World) ClockEpoch() int { return w.clockEpoch }

// StateKey identifies the happens-before trace of the prefix executed so far.
func (w *World) StateKey() uint64 {
	// goroutines are identified by schedule-independent ids, so a commutative combination suffices
	var sum, xor uint64
	for _, g := range w.gs {
		st := uint64(0)
		if g.done {
			st = 1
		}
		x := mix(g.idh, g.hash, st)
		sum += x
		xor ^= x * 0x9e3779b97f4a7c15
	}
	return mix(uint64(w.now), w.monitor, sum, xor, uint64(len(w.gs)))
}

func (w *World) finishResult() {
	w.res.Steps = w.Steps
	w.res.BodyDone = w.gs[0].done
	w.res.VirtualTime = w.now
	for _, g := range w.gs {
		if g.done {
			continue
		}
		a := AliveG{ID: g.ID, Site: g.site(), Name: g.Name}
		if g.pending != nil {
			a.Op = opNames[g.pending.kind]
			if g.pending.kind == opNop {
				a.Op = g.pending.name
			}
			a.OpSite = g.pending.site
			a.Enabled = w.enabled(g, g.pending)
		} else {
			a.Op = "running"
		}
		w.res.Alive = append(w.res.Alive, a)
	}
}

// ---- harness primitives -------------------------------------------------------------------------

// Active reports whether an execution is in progress.
func Active() bool { return W != nil }

// Choose returns a value in [0,n) picked by the explorer; non-zero answers cost `cost` fault units.
func Choose(n int, cost int, what string) int {
	w := W
	if w == nil || n <= 1 {
		return 0
	}
	o := &op{kind: opChoose, n: n, cost: cost, name: what}
	w.yield(o)
	return o.chosen
}

// Observe appends an event to the observation log as a visible operation on the monitor object
// (so that the order of observations is part of the explored state).
func Observe(format string, args ...any) {
	w := W
	if w == nil {
		return
	}
	ev := fmt.Sprintf(format, args...)
	w.yield(&op{kind: opNop, name: "observe " + ev, obj: &w.monitor, eff: func() {
		g := w.cur
		w.monitor = mix(w.monitor, g.hash, hashStr(ev))
		g.hash = mix(g.hash, w.monitor)
		w.res.Obs = append(w.res.Obs, ev)
	}})
}

// Note appends to the observation log without a scheduling point (order between independent
// goroutines is then not significant and must not be used by an oracle).
func Note(format string, args ...any) {
	w := W
	if w == nil {
		return
	}
	w.res.Obs = append(w.res.Obs, fmt.Sprintf(format, args...))
}

// Fail records a property violation for this execution.
func Fail(clause string, format string, args ...any) {
	w := W
	if w == nil {
		panic("vs.Fail outside execution: " + clause + ": " + fmt.Sprintf(format, args...))
	}
	w.res.Failures = append(w.res.Failures, Failure{Clause: clause, Msg: fmt.Sprintf(format, args...)})
}

// Yield is a plain scheduling point.
func Yield() {
	w := W
	if w == nil {
		runtime.Gosched()
		return
	}
	w.yield(&op{kind: opNop, name: "yield", eff: func() { w.cur.hash = mix(w.cur.hash, 0x71e1d) }})
}

// Quiesce blocks until no other goroutine can move without advancing the clock.
func Quiesce() {
	w := W
	if w == nil {
		return
	}
	w.yield(&op{kind: opQuiesce, global: true})
}

// Step returns the number of transitions executed so far (a logical clock for call/return stamps).
func Step() int {
	if W == nil {
		return 0
	}
	return W.Steps
}

// SetName names the running goroutine (diagnostics, leak oracles).
func SetName(n string) {
	if W != nil {
		W.running.Name = n
	}
}

// Self returns the index of the running goroutine (harness-side bookkeeping per goroutine).
func Self() int {
	if W == nil {
		return -1
	}
	return W.running.Index
}

// Alive lists the goroutines that have not finished, with spawn sites and pending operations.
func Alive() []AliveG {
	w := W
	if w == nil {
		return nil
	}
	var out []AliveG
	for _, g := range w.gs {
		if g.done || g == w.running {
			continue
		}
		a := AliveG{ID: g.ID, Site: g.site(), Name: g.Name}
		if g.pending != nil {
			a.Op = opNames[g.pending.kind]
			a.Enabled = w.enabled(g, g.pending)
		}
		out = append(out, a)
	}
	return out
}

// AddInvariant registers a predicate evaluated after every transition.
func AddInvariant(f func() *Failure) {
	if W != nil {
		W.invs = append(W.invs, f)
	}
}

// NextID returns a deterministic per-execution identifier (replacement of random UUIDs). It depends
// only on the calling goroutine's identity and its own call count, not on the schedule.
func NextID(prefix string) string {
	w := W
	if w == nil {
		nativeSeq++
		return fmt.Sprintf("%s-native-%d", prefix, nativeSeq)
	}
	g := w.running
	g.idseq++
	return fmt.Sprintf("%s-%s-%d", prefix, g.ID, g.idseq)
}

// IDOr returns NextID inside an execution and f() outside.
func IDOr(prefix string, f func() string) string {
	if W == nil {
		return f()
	}
	return NextID(prefix)
}

var nativeSeq int

// ObsCount is the current length of the observation log (the index of the next observation).
func ObsCount() int {
	if W == nil {
		return 0
	}
	return len(W.res.Obs)
}
