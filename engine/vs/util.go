package vs

import (
	"cmp"
	"math/rand"
	"sort"
)

// SortedKeys returns the keys of m in ascending order (deterministic replacement of Go's random
// map iteration order in rewritten code).
func SortedKeys[M ~map[K]V, K cmp.Ordered, V any](m M) []K {
	if len(m) == 0 {
		return nil
	}
	ks := make([]K, 0, len(m))
	for k := range m {
		ks = append(ks, k)
	}
	if len(ks) > 1 {
		sort.Slice(ks, func(i, j int) bool { return ks[i] < ks[j] })
	}
	return ks
}

// Jitter values enumerated for math/rand.Float64 when the scenario asks for it.
var jitter = []float64{0.5, 0, 0.999999}

// RandFloat64 replaces math/rand.Float64 (back-off jitter): outside executions the real thing,
// inside 0.5 or — when the world enables jitter enumeration — a choice among {0.5, 0, 0.999999}.
func RandFloat64() float64 {
	w := W
	if w == nil {
		return rand.Float64()
	}
	if w.opts.Jitter {
		return jitter[Choose(len(jitter), 0, "jitter")]
	}
	return 0.5
}

func RandFloat32() float32 {
	if W == nil {
		return rand.Float32()
	}
	return 0.5
}

// ChanAndZero returns the channel (as a receive-only channel) and the zero value of its element type:
// lets rewritten `for x := range ch` loops declare x once per loop without naming its type.
func ChanAndZero[T any](ch <-chan T) (<-chan T, T) {
	var z T
	return ch, z
}
