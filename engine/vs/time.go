package vs

import (
	"sort"
	"time"
)

// Epoch is the virtual time at the start of every execution.
var Epoch = time.Date(2030, 1, 1, 0, 0, 0, 0, time.UTC)

type vtimer struct {
	deadline int64
	seq      int
	ch       chan time.Time // one-shot / ticker channel (cap 1), nil for AfterFunc / context deadlines
	period   int64
	fn       func() // AfterFunc: spawned as goroutine; context deadline: run inline
	inline   bool
	stopped  bool
}

func (w *World) addTimer(t *vtimer) {
	t.seq = w.tseq
	w.tseq++
	w.timers = append(w.timers, t)
	sort.SliceStable(w.timers, func(i, j int) bool {
		if w.timers[i].deadline != w.timers[j].deadline {
			return w.timers[i].deadline < w.timers[j].deadline
		}
		return w.timers[i].seq < w.timers[j].seq
	})
}

func (w *World) removeTimer(t *vtimer) bool {
	for i, x := range w.timers {
		if x == t {
			w.timers = append(w.timers[:i], w.timers[i+1:]...)
			return true
		}
	}
	return false
}

// advanceClock fires the earliest timer; false if it lies beyond the time horizon.
func (w *World) advanceClock() bool {
	if len(w.timers) == 0 {
		return false
	}
	t := w.timers[0]
	if t.deadline > w.opts.TimeHorizon {
		return false
	}
	w.timers = w.timers[1:]
	w.clockEpoch++
	if t.deadline > w.now {
		w.now = t.deadline
	}
	if w.opts.Trace {
		w.res.Trace = append(w.res.Trace, "       clock -> "+time.Duration(w.now).String()+" timer fires")
	}
	w.monitor = mix(w.monitor, uint64(t.seq), uint64(w.now), 0x71ae)
	if t.ch != nil {
		c := w.vc(t.ch, chanID(t.ch), 1)
		if len(c.buf) < 1 {
			c.buf = append(c.buf, Epoch.Add(time.Duration(w.now)))
			c.hash = mix(c.hash, uint64(t.seq), uint64(w.now))
		}
		if t.period > 0 {
			t.deadline += t.period
			w.addTimer(t)
		}
		return true
	}
	if t.inline {
		t.fn()
		return true
	}
	// AfterFunc: runs in its own goroutine
	g := &G{wake: make(chan struct{}, 1), dead: make(chan struct{}, 1), Site: "timer", ID: "0.t" + itoa(t.seq), path: []int32{0, 1 << 20, int32(t.seq)}}
	g.idh = hashStr(g.ID)
	g.Index = len(w.gs)
	g.hash = mix(0x71, uint64(t.seq), uint64(w.now))
	w.gs = append(w.gs, g)
	w.launch(g, t.fn)
	w.resumed = append(w.resumed, g)
	return true
}

// Now replaces time.Now.
func Now() time.Time {
	w := W
	if w == nil {
		return time.Now()
	}
	if w.opts.Time == Nondet {
		w.yield(&op{kind: opNop, name: "now", obj: &w.clockObj, ro: true, eff: func() { w.cur.hash = mix(w.cur.hash, uint64(w.now), 0x90) }})
	}
	return Epoch.Add(time.Duration(w.now))
}

func Since(t time.Time) time.Duration { return Now().Sub(t) }
func Until(t time.Time) time.Duration { return t.Sub(Now()) }

func (w *World) newChanTimer(d time.Duration, period int64) *vtimer {
	if d < 0 {
		d = 0
	}
	t := &vtimer{deadline: w.now + int64(d), ch: make(chan time.Time, 1), period: period}
	w.addTimer(t)
	return t
}

// After replaces time.After.
func After(d time.Duration) <-chan time.Time {
	w := W
	if w == nil {
		return time.After(d)
	}
	t := w.newChanTimer(d, 0)
	w.maybeDue(t, d)
	return t.ch
}

// maybeDue: a timer created with no delay fires "at once", i.e. asynchronously and very soon: an operation
// that follows immediately (typically a select with another ready case) may or may not find its value already
// there. Both are explored (a data choice, so also in the one-schedule-per-program mode).
func (w *World) maybeDue(t *vtimer, d time.Duration) {
	if d > 0 || t.ch == nil {
		return
	}
	if Choose(2, 0, "a timer with no delay has already fired") == 1 && w.removeTimer(t) {
		c := w.vc(t.ch, chanID(t.ch), 1)
		if len(c.buf) < 1 {
			c.buf = append(c.buf, Epoch.Add(time.Duration(w.now)))
			c.hash = mix(c.hash, uint64(t.seq), uint64(w.now))
		}
	}
}

// Sleep replaces time.Sleep.
func Sleep(d time.Duration) {
	w := W
	if w == nil {
		time.Sleep(d)
		return
	}
	if d <= 0 {
		Yield()
		return
	}
	Recv(After(d))
}

// Timer replaces time.Timer.
type Timer struct {
	C   <-chan time.Time
	nat *time.Timer
	t   *vtimer
}

func NewTimer(d time.Duration) *Timer {
	w := W
	if w == nil {
		n := time.NewTimer(d)
		return &Timer{C: n.C, nat: n}
	}
	t := w.newChanTimer(d, 0)
	w.maybeDue(t, d)
	return &Timer{C: t.ch, t: t}
}

func AfterFunc(d time.Duration, f func()) *Timer {
	w := W
	if w == nil {
		return &Timer{nat: time.AfterFunc(d, f)}
	}
	if d < 0 {
		d = 0
	}
	t := &vtimer{deadline: w.now + int64(d), fn: f}
	w.addTimer(t)
	return &Timer{t: t}
}

func (t *Timer) Stop() bool {
	if t.nat != nil {
		return t.nat.Stop()
	}
	w := W
	if w == nil {
		return false
	}
	active := false
	w.yield(&op{kind: opNop, name: "timer-stop", global: true, eff: func() {
		active = w.removeTimer(t.t)
		if t.t.ch != nil {
			c := w.vc(t.t.ch, chanID(t.t.ch), 1)
			c.buf = nil // Go >= 1.23: no stale value after Stop
		}
		w.cur.hash = mix(w.cur.hash, uint64(t.t.seq), 0x5709)
	}})
	return active
}

func (t *Timer) Reset(d time.Duration) bool {
	if t.nat != nil {
		return t.nat.Reset(d)
	}
	w := W
	if w == nil {
		return false
	}
	active := false
	w.yield(&op{kind: opNop, name: "timer-reset", global: true, eff: func() {
		active = w.removeTimer(t.t)
		if t.t.ch != nil {
			c := w.vc(t.t.ch, chanID(t.t.ch), 1)
			c.buf = nil
		}
		if d < 0 {
			d = 0
		}
		t.t.deadline = w.now + int64(d)
		w.addTimer(t.t)
		w.cur.hash = mix(w.cur.hash, uint64(t.t.seq), 0x4e5e7)
	}})
	return active
}

// Ticker replaces time.Ticker.
type Ticker struct {
	C   <-chan time.Time
	nat *time.Ticker
	t   *vtimer
}

func NewTicker(d time.Duration) *Ticker {
	w := W
	if w == nil {
		n := time.NewTicker(d)
		return &Ticker{C: n.C, nat: n}
	}
	if d <= 0 {
		panic("non-positive interval for NewTicker")
	}
	t := w.newChanTimer(d, int64(d))
	return &Ticker{C: t.ch, t: t}
}

func Tick(d time.Duration) <-chan time.Time {
	if d <= 0 {
		return nil
	}
	return NewTicker(d).C
}

func (t *Ticker) Stop() {
	if t.nat != nil {
		t.nat.Stop()
		return
	}
	w := W
	if w == nil {
		return
	}
	w.yield(&op{kind: opNop, name: "ticker-stop", global: true, eff: func() {
		w.removeTimer(t.t)
		w.cur.hash = mix(w.cur.hash, uint64(t.t.seq), 0x5709)
	}})
}

func (t *Ticker) Reset(d time.Duration) {
	if t.nat != nil {
		t.nat.Reset(d)
		return
	}
	w := W
	if w == nil {
		return
	}
	w.yield(&op{kind: opNop, name: "ticker-reset", global: true, eff: func() {
		w.removeTimer(t.t)
		t.t.period = int64(d)
		t.t.deadline = w.now + int64(d)
		w.addTimer(t.t)
	}})
}

// VirtualNow returns the virtual clock offset (harness use).
func VirtualNow() time.Duration {
	if W == nil {
		return 0
	}
	return time.Duration(W.now)
}
