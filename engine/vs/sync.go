package vs

import (
	"sync"
	"sync/atomic"
)

// A Locker represents an object that can be locked and unlocked.
type Locker = sync.Locker

// Mutex replaces sync.Mutex.
type Mutex struct {
	nat    sync.Mutex
	locked bool
	hash   uint64
}

func (m *Mutex) Lock() {
	w := W
	if w == nil {
		m.nat.Lock()
		return
	}
	w.yield(&op{kind: opLock, mu: m})
}

func (m *Mutex) TryLock() bool {
	w := W
	if w == nil {
		return m.nat.TryLock()
	}
	ok := false
	w.yield(&op{kind: opNop, name: "trylock", obj: &m.hash, eff: func() {
		if !m.locked {
			m.locked = true
			ok = true
		}
	}})
	return ok
}

func (m *Mutex) Unlock() {
	w := W
	if w == nil {
		m.nat.Unlock()
		return
	}
	o := &op{kind: opNop, name: "unlock", obj: &m.hash}
	o.eff = func() {
		if !m.locked {
			o.panicVal = chanPanic("sync: unlock of unlocked mutex")
			return
		}
		m.locked = false
	}
	w.yield(o)
	w.postRelease()
}

// RWMutex replaces sync.RWMutex. A writer first announces itself (from then on new readers
// block), then waits for the readers that were already inside.
type RWMutex struct {
	nat     sync.RWMutex
	writer  *G
	active  bool
	readers int
	whash   uint64
	rsum    uint64
}

func (rw *RWMutex) Lock() {
	w := W
	if w == nil {
		rw.nat.Lock()
		return
	}
	w.yield(&op{kind: opWAnnounce, rw: rw})
	w.yield(&op{kind: opWAcquire, rw: rw})
}

func (rw *RWMutex) Unlock() {
	w := W
	if w == nil {
		rw.nat.Unlock()
		return
	}
	o := &op{kind: opNop, name: "rw-unlock", obj: &rw.whash}
	o.eff = func() {
		if !rw.active {
			o.panicVal = chanPanic("sync: Unlock of unlocked RWMutex")
			return
		}
		rw.active = false
		rw.writer = nil
	}
	w.yield(o)
	w.postRelease()
}

func (rw *RWMutex) RLock() {
	w := W
	if w == nil {
		rw.nat.RLock()
		return
	}
	w.yield(&op{kind: opRLock, rw: rw})
}

func (rw *RWMutex) RUnlock() {
	w := W
	if w == nil {
		rw.nat.RUnlock()
		return
	}
	o := &op{kind: opNop, name: "runlock", obj: &rw.whash, ro: true}
	o.eff = func() {
		if rw.readers <= 0 {
			o.panicVal = chanPanic("sync: RUnlock of unlocked RWMutex")
			return
		}
		rw.readers--
		g := w.cur
		g.hash = mix(g.hash, rw.whash, 0x4a10c)
		rw.rsum += g.hash
	}
	w.yield(o)
	w.postRelease()
}

func (rw *RWMutex) RLocker() Locker { return (*rlocker)(rw) }

type rlocker RWMutex

func (r *rlocker) Lock()   { (*RWMutex)(r).RLock() }
func (r *rlocker) Unlock() { (*RWMutex)(r).RUnlock() }

// WaitGroup replaces sync.WaitGroup.
type WaitGroup struct {
	nat  sync.WaitGroup
	n    int
	hash uint64
}

func (wg *WaitGroup) Add(delta int) {
	w := W
	if w == nil {
		wg.nat.Add(delta)
		return
	}
	o := &op{kind: opNop, name: "wg-add", obj: &wg.hash}
	o.eff = func() {
		wg.n += delta
		if wg.n < 0 {
			o.panicVal = chanPanic("sync: negative WaitGroup counter")
		}
	}
	w.yield(o)
	if delta < 0 {
		w.postRelease()
	}
}

func (wg *WaitGroup) Done() { wg.Add(-1) }

func (wg *WaitGroup) Wait() {
	w := W
	if w == nil {
		wg.nat.Wait()
		return
	}
	w.yield(&op{kind: opWait, wg: wg})
}

// Once replaces sync.Once.
type Once struct {
	nat     sync.Once
	done    bool
	running bool
	hash    uint64
}

func (o *Once) Do(f func()) {
	w := W
	if w == nil {
		o.nat.Do(f)
		return
	}
	p := &op{kind: opOnce, once: o}
	w.yield(p)
	if !p.rok {
		return
	}
	defer func() {
		w.yield(&op{kind: opNop, name: "once-done", obj: &o.hash, eff: func() { o.done, o.running = true, false }})
	}()
	f()
}

// Map replaces sync.Map: each method is one visible operation on the whole map.
type Map struct {
	m    sync.Map
	hash uint64
}

func (m *Map) point(name string) {
	if w := W; w != nil {
		w.yield(&op{kind: opNop, name: name, obj: &m.hash})
	}
}

func (m *Map) Load(key any) (any, bool)          { m.point("map-load"); return m.m.Load(key) }
func (m *Map) Store(key, value any)              { m.point("map-store"); m.m.Store(key, value) }
func (m *Map) Delete(key any)                    { m.point("map-delete"); m.m.Delete(key) }
func (m *Map) LoadAndDelete(key any) (any, bool) { m.point("map-lad"); return m.m.LoadAndDelete(key) }
func (m *Map) LoadOrStore(key, value any) (any, bool) {
	m.point("map-los")
	return m.m.LoadOrStore(key, value)
}
func (m *Map) Range(f func(key, value any) bool) { m.point("map-range"); m.m.Range(f) }
func (m *Map) Swap(key, value any) (any, bool)   { m.point("map-swap"); return m.m.Swap(key, value) }
func (m *Map) CompareAndSwap(key, old, new any) bool {
	m.point("map-cas")
	return m.m.CompareAndSwap(key, old, new)
}

// atomics: a scheduling point followed by the native operation.

func atomPoint() {
	if w := W; w != nil {
		w.yield(&op{kind: opNop, name: "atomic", obj: &w.atomHash})
	}
}

type Int32 struct{ v atomic.Int32 }

func (a *Int32) Load() int32                    { atomPoint(); return a.v.Load() }
func (a *Int32) Store(x int32)                  { atomPoint(); a.v.Store(x) }
func (a *Int32) Add(d int32) int32              { atomPoint(); return a.v.Add(d) }
func (a *Int32) Swap(x int32) int32             { atomPoint(); return a.v.Swap(x) }
func (a *Int32) CompareAndSwap(o, n int32) bool { atomPoint(); return a.v.CompareAndSwap(o, n) }

type Int64 struct{ v atomic.Int64 }

func (a *Int64) Load() int64                    { atomPoint(); return a.v.Load() }
func (a *Int64) Store(x int64)                  { atomPoint(); a.v.Store(x) }
func (a *Int64) Add(d int64) int64              { atomPoint(); return a.v.Add(d) }
func (a *Int64) Swap(x int64) int64             { atomPoint(); return a.v.Swap(x) }
func (a *Int64) CompareAndSwap(o, n int64) bool { atomPoint(); return a.v.CompareAndSwap(o, n) }

type Uint32 struct{ v atomic.Uint32 }

func (a *Uint32) Load() uint32                    { atomPoint(); return a.v.Load() }
func (a *Uint32) Store(x uint32)                  { atomPoint(); a.v.Store(x) }
func (a *Uint32) Add(d uint32) uint32             { atomPoint(); return a.v.Add(d) }
func (a *Uint32) CompareAndSwap(o, n uint32) bool { atomPoint(); return a.v.CompareAndSwap(o, n) }

type Uint64 struct{ v atomic.Uint64 }

func (a *Uint64) Load() uint64                    { atomPoint(); return a.v.Load() }
func (a *Uint64) Store(x uint64)                  { atomPoint(); a.v.Store(x) }
func (a *Uint64) Add(d uint64) uint64             { atomPoint(); return a.v.Add(d) }
func (a *Uint64) CompareAndSwap(o, n uint64) bool { atomPoint(); return a.v.CompareAndSwap(o, n) }

type Bool struct{ v atomic.Bool }

func (a *Bool) Load() bool                    { atomPoint(); return a.v.Load() }
func (a *Bool) Store(x bool)                  { atomPoint(); a.v.Store(x) }
func (a *Bool) Swap(x bool) bool              { atomPoint(); return a.v.Swap(x) }
func (a *Bool) CompareAndSwap(o, n bool) bool { atomPoint(); return a.v.CompareAndSwap(o, n) }

func AddInt32(p *int32, d int32) int32     { atomPoint(); return atomic.AddInt32(p, d) }
func AddInt64(p *int64, d int64) int64     { atomPoint(); return atomic.AddInt64(p, d) }
func AddUint32(p *uint32, d uint32) uint32 { atomPoint(); return atomic.AddUint32(p, d) }
func AddUint64(p *uint64, d uint64) uint64 { atomPoint(); return atomic.AddUint64(p, d) }
func LoadInt32(p *int32) int32             { atomPoint(); return atomic.LoadInt32(p) }
func LoadInt64(p *int64) int64             { atomPoint(); return atomic.LoadInt64(p) }
func LoadUint32(p *uint32) uint32          { atomPoint(); return atomic.LoadUint32(p) }
func LoadUint64(p *uint64) uint64          { atomPoint(); return atomic.LoadUint64(p) }
func StoreInt32(p *int32, v int32)         { atomPoint(); atomic.StoreInt32(p, v) }
func StoreInt64(p *int64, v int64)         { atomPoint(); atomic.StoreInt64(p, v) }
func StoreUint32(p *uint32, v uint32)      { atomPoint(); atomic.StoreUint32(p, v) }
func StoreUint64(p *uint64, v uint64)      { atomPoint(); atomic.StoreUint64(p, v) }
func CompareAndSwapInt32(p *int32, o, n int32) bool {
	atomPoint()
	return atomic.CompareAndSwapInt32(p, o, n)
}
func CompareAndSwapInt64(p *int64, o, n int64) bool {
	atomPoint()
	return atomic.CompareAndSwapInt64(p, o, n)
}
