package vs

import (
	"context"
	"time"
)

type vctxKeyT struct{}

var vctxKey = &vctxKeyT{}

// vctx is a cancellable context whose Done channel and error live in the virtual world.
type vctx struct {
	parent   context.Context
	done     chan struct{}
	err      error
	cause    error
	children []*vctx
	up       *vctx
	deadline time.Time
	hasDl    bool
	timer    *vtimer
	hash     uint64
	w        *World
}

func (c *vctx) Done() <-chan struct{} { return c.done }

func (c *vctx) Err() error {
	w := W
	if w == nil || w != c.w {
		return c.err
	}
	if w.running.killed {
		return c.err
	}
	var e error
	w.yield(&op{kind: opNop, name: "ctx-err", obj: &c.hash, ro: true, eff: func() {
		e = c.err
		g := w.cur
		g.hash = mix(g.hash, c.hash, 0xe44)
	}})
	return e
}

func (c *vctx) Value(key any) any {
	if key == any(vctxKey) {
		return c
	}
	return c.parent.Value(key)
}

func (c *vctx) Deadline() (time.Time, bool) {
	if c.hasDl {
		return c.deadline, true
	}
	return c.parent.Deadline()
}

func (c *vctx) String() string { return "vs.ctx" }

func (w *World) newCtx(parent context.Context) *vctx {
	if parent == nil {
		panic("cannot create context from nil parent")
	}
	c := &vctx{parent: parent, done: make(chan struct{}), w: w, hash: 5}
	w.vc(c.done, chanID(c.done), 0)
	if up, ok := parent.Value(vctxKey).(*vctx); ok && up.w == w {
		c.up = up
		if up.err != nil {
			c.cancelNow(up.err, up.cause)
		} else {
			up.children = append(up.children, c)
		}
	} else if parent.Done() != nil {
		// a cancellable parent created outside the world: only its state at creation is visible
		if err := parent.Err(); err != nil {
			c.cancelNow(err, context.Cause(parent))
		}
	}
	return c
}

// cancelNow marks c and its subtree cancelled (part of the transition in progress).
func (c *vctx) cancelNow(err, cause error) {
	if c.err != nil {
		return
	}
	c.err = err
	if cause == nil {
		cause = err
	}
	c.cause = cause
	w := c.w
	vc := w.vc(c.done, chanID(c.done), 0)
	vc.closed = true
	h := mix(c.hash, 0xca9ce1)
	if w.cur != nil {
		h = mix(h, w.cur.hash)
	}
	c.hash = h
	vc.hash = h
	if c.timer != nil {
		w.removeTimer(c.timer)
	}
	kids := c.children
	c.children = nil
	for _, k := range kids {
		k.cancelNow(err, cause)
	}
}

func (c *vctx) cancelOp(err, cause error) {
	w := W
	if w == nil || w != c.w {
		return
	}
	if w.running.killed {
		return
	}
	w.yield(&op{kind: opNop, name: "cancel", fpFn: c.subtreeFootprint, eff: func() {
		g := w.cur
		g.hash = mix(g.hash, c.hash, 0xca9)
		if c.err == nil {
			c.cancelNow(err, cause)
			if c.up != nil {
				for i, k := range c.up.children {
					if k == c {
						c.up.children = append(c.up.children[:i], c.up.children[i+1:]...)
						break
					}
				}
			}
		}
	}})
	w.postRelease()
}

func WithCancel(parent context.Context) (context.Context, context.CancelFunc) {
	w := W
	if w == nil {
		return context.WithCancel(parent)
	}
	c := w.newCtx(parent)
	return c, func() { c.cancelOp(context.Canceled, nil) }
}

func WithCancelCause(parent context.Context) (context.Context, context.CancelCauseFunc) {
	w := W
	if w == nil {
		return context.WithCancelCause(parent)
	}
	c := w.newCtx(parent)
	return c, func(cause error) { c.cancelOp(context.Canceled, cause) }
}

func WithDeadline(parent context.Context, d time.Time) (context.Context, context.CancelFunc) {
	w := W
	if w == nil {
		return context.WithDeadline(parent, d)
	}
	if cur, ok := parent.Deadline(); ok && cur.Before(d) {
		return WithCancel(parent)
	}
	c := w.newCtx(parent)
	c.deadline, c.hasDl = d, true
	if c.err == nil {
		dl := int64(d.Sub(Epoch))
		if dl <= w.now {
			c.cancelNow(context.DeadlineExceeded, nil)
		} else {
			t := &vtimer{deadline: dl, inline: true}
			t.fn = func() {
				c.timer = nil
				c.cancelNow(context.DeadlineExceeded, nil)
				if c.up != nil {
					for i, k := range c.up.children {
						if k == c {
							c.up.children = append(c.up.children[:i], c.up.children[i+1:]...)
							break
						}
					}
				}
			}
			c.timer = t
			w.addTimer(t)
		}
	}
	return c, func() { c.cancelOp(context.Canceled, nil) }
}

func WithTimeout(parent context.Context, d time.Duration) (context.Context, context.CancelFunc) {
	w := W
	if w == nil {
		return context.WithTimeout(parent, d)
	}
	return WithDeadline(parent, Epoch.Add(time.Duration(w.now)+d))
}

// Cause replaces context.Cause.
func Cause(ctx context.Context) error {
	if c, ok := ctx.Value(vctxKey).(*vctx); ok && W != nil && c.w == W {
		_ = c.Err()
		return c.cause
	}
	return context.Cause(ctx)
}

// subtreeFootprint lists the hash words of every context (and its Done channel) a cancel of c reaches.
func (c *vctx) subtreeFootprint() []*uint64 {
	var out []*uint64
	var walk func(n *vctx)
	walk = func(n *vctx) {
		out = append(out, &n.hash)
		if vc := n.w.chans[chanID(n.done)]; vc != nil {
			out = append(out, &vc.hash)
		}
		for _, k := range n.children {
			walk(k)
		}
	}
	walk(c)
	if c.up != nil {
		out = append(out, &c.up.hash) // unregisters from the parent's child list
	}
	return out
}

// WithoutCancel replaces context.WithoutCancel: the values of the parent without its cancellation and deadline.
func WithoutCancel(parent context.Context) context.Context { return withoutCancelCtx{parent} }

type withoutCancelCtx struct{ parent context.Context }

func (withoutCancelCtx) Deadline() (time.Time, bool) { return time.Time{}, false }
func (withoutCancelCtx) Done() <-chan struct{}       { return nil }
func (withoutCancelCtx) Err() error                  { return nil }
func (c withoutCancelCtx) Value(key any) any {
	if key == any(vctxKey) {
		return nil // contexts derived from this one are roots of their own cancellation trees
	}
	return c.parent.Value(key)
}
func (c withoutCancelCtx) String() string { return "vs.withoutCancel" }
