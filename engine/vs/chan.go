package vs

import (
	"reflect"
	"runtime"
	"sync"
)

// vchan is the virtual state of a channel, keyed by the identity of the native channel value.
type vchan struct {
	ref    any // keeps the native channel alive (no address reuse inside an execution)
	cap    int
	buf    []any
	closed bool
	hash   uint64
}

// channels closed natively outside executions (e.g. message.closedchan, closed in init()).
var (
	nativeClosedMu sync.Mutex
	nativeClosed   = map[uintptr]any{}
)

func chanID(ch any) uintptr {
	v := reflect.ValueOf(ch)
	if !v.IsValid() || v.Kind() != reflect.Chan || v.IsNil() {
		return 0
	}
	return v.Pointer()
}

func (w *World) vc(ch any, id uintptr, capacity int) *vchan {
	if id == 0 {
		return nil
	}
	c := w.chans[id]
	if c == nil {
		c = &vchan{ref: ch, cap: capacity, hash: 3}
		nativeClosedMu.Lock()
		_, c.closed = nativeClosed[id]
		nativeClosedMu.Unlock()
		w.chans[id] = c
	}
	return c
}

type chanPanic string

func (e chanPanic) Error() string { return string(e) }
func (e chanPanic) RuntimeError() {}

// partners lists goroutines (other than self) blocked in an operation that can rendez-vous with a
// send (wantRecv) or receive (!wantRecv) on the unbuffered channel c.
func (w *World) partners(self *G, c *vchan, wantRecv bool) []*G {
	var out []*G
	for _, g := range w.gs {
		if g == self || g.done || g.pending == nil {
			continue
		}
		o := g.pending
		switch o.kind {
		case opRecv:
			if wantRecv && o.ch == c {
				out = append(out, g)
			}
		case opSend:
			if !wantRecv && o.ch == c {
				out = append(out, g)
			}
		case opSelect:
			if o.deflt {
				continue
			}
			for _, sc := range o.cases {
				if sc.ch == c && sc.send != wantRecv {
					out = append(out, g)
					break
				}
			}
		}
	}
	if len(out) > 1 {
		sortGs(out)
	}
	return out
}

func sortGs(gs []*G) {
	for i := 1; i < len(gs); i++ {
		for j := i; j > 0 && gLess(gs[j], gs[j-1]); j-- {
			gs[j], gs[j-1] = gs[j-1], gs[j]
		}
	}
}

// readiness of a single channel operation: 0 not ready, 1 ready for certain (buffer/closed),
// 2 ready only because a partner is blocked on the other side.
func (w *World) chanReady(self *G, c *vchan, send bool) int {
	if c == nil {
		return 0
	}
	if send {
		if c.closed {
			return 1
		}
		if c.cap > 0 {
			if len(c.buf) < c.cap {
				return 1
			}
			return 0
		}
		return partnerReadiness(w.partners(self, c, true))
	}
	if len(c.buf) > 0 || c.closed {
		return 1
	}
	if c.cap == 0 {
		return partnerReadiness(w.partners(self, c, false))
	}
	return 0
}

// partnerReadiness: 0 no partner, 1 a partner that is known to be parked, 2 a partner that has reached
// its operation but may not have parked yet (a non-blocking operation may still miss it).
func partnerReadiness(ps []*G) int {
	if len(ps) == 0 {
		return 0
	}
	for _, p := range ps {
		if p.parked {
			return 1
		}
	}
	return 2
}

func (w *World) enabled(g *G, o *op) bool {
	switch o.kind {
	case opNop, opChoose:
		return true
	case opSend:
		return w.chanReady(g, o.ch, true) != 0
	case opRecv:
		return w.chanReady(g, o.ch, false) != 0
	case opSelect:
		if o.deflt {
			return true
		}
		for _, sc := range o.cases {
			if w.chanReady(g, sc.ch, sc.send) != 0 {
				return true
			}
		}
		return false
	case opLock:
		return !o.mu.locked
	case opRLock:
		return o.rw.writer == nil
	case opWAnnounce:
		return o.rw.writer == nil
	case opWAcquire:
		return o.rw.readers == 0
	case opWait:
		return o.wg.n == 0
	case opOnce:
		return !o.once.running
	case opQuiesce:
		return false
	}
	return false
}

// apply executes g's pending operation o as one atomic transition.
func (w *World) apply(g *G, o *op) {
	switch o.kind {
	case opNop:
		if o.obj != nil {
			g.hash = mix(g.hash, *o.obj, hashStr(o.name))
			if !o.ro {
				*o.obj = g.hash
			}
		}
		if o.eff != nil {
			o.eff()
		}
	case opChoose:
		o.chosen = w.ch.Data(w, o.n, o.cost, o.name)
		g.hash = mix(g.hash, uint64(o.chosen), 0xc400)
	case opSend:
		w.doSend(g, o, o.ch, o.val)
	case opRecv:
		o.rval, o.rok = w.doRecv(g, o.ch)
	case opSelect:
		var ready []int
		certain := false
		for i, sc := range o.cases {
			r := w.chanReady(g, sc.ch, sc.send)
			if r != 0 {
				ready = append(ready, i)
				if r == 1 {
					certain = true
				}
			}
		}
		n := len(ready)
		alts := n
		if o.deflt && !certain {
			alts++ // default is possible: no case is ready for certain
		}
		pick := 0
		if alts > 1 {
			pick = w.ch.Data(w, alts, 0, "select")
		}
		if pick >= n {
			o.chosen = -1
			g.hash = mix(g.hash, 0xdef)
			return
		}
		i := ready[pick]
		o.chosen = i
		g.hash = mix(g.hash, uint64(i), 0x5e1)
		sc := o.cases[i]
		if sc.send {
			w.doSend(g, o, sc.ch, sc.val)
		} else {
			o.rval, o.rok = w.doRecv(g, sc.ch)
		}
	case opLock:
		m := o.mu
		m.locked = true
		g.hash = mix(g.hash, m.hash, 0x10c)
		m.hash = g.hash
	case opRLock:
		rw := o.rw
		rw.readers++
		// readers commute with each other: do not chain reader hashes through the object
		g.hash = mix(g.hash, rw.whash, 0x410c)
		rw.rsum += g.hash
	case opWAnnounce:
		rw := o.rw
		rw.writer = g
		g.hash = mix(g.hash, rw.whash, rw.rsum, 0xa220)
		rw.whash = g.hash
	case opWAcquire:
		rw := o.rw
		rw.active = true
		g.hash = mix(g.hash, rw.whash, rw.rsum, 0xac01)
		rw.whash = g.hash
	case opWait:
		g.hash = mix(g.hash, o.wg.hash, 0x3a17)
	case opOnce:
		oc := o.once
		g.hash = mix(g.hash, oc.hash, 0x0ce)
		if oc.done {
			o.rok = false
		} else {
			oc.running = true
			o.rok = true
		}
		oc.hash = g.hash
	case opQuiesce:
		g.hash = mix(g.hash, 0x901e5ce)
	}
}

func (w *World) doSend(g *G, o *op, c *vchan, v any) {
	if c.closed {
		o.panicVal = chanPanic("send on closed channel")
		g.hash = mix(g.hash, c.hash, 0xdead)
		return
	}
	if c.cap > 0 {
		c.buf = append(c.buf, v)
		g.hash = mix(g.hash, c.hash, 0x5e4d)
		c.hash = g.hash
		return
	}
	ps := w.partners(g, c, true)
	p := ps[0]
	if len(ps) > 1 {
		p = ps[w.ch.Data(w, len(ps), 0, "partner")]
	}
	w.complete(p, c, false, v, true)
	h := mix(g.hash, p.hash, c.hash, 0x4e4d)
	g.hash = mix(h, 1)
	p.hash = mix(h, 2)
	c.hash = h
}

func (w *World) doRecv(g *G, c *vchan) (any, bool) {
	if len(c.buf) > 0 {
		v := c.buf[0]
		c.buf = c.buf[1:]
		g.hash = mix(g.hash, c.hash, 0x4ec7)
		c.hash = g.hash
		return v, true
	}
	if c.closed {
		g.hash = mix(g.hash, c.hash, 0xc105)
		return nil, false
	}
	ps := w.partners(g, c, false)
	p := ps[0]
	if len(ps) > 1 {
		p = ps[w.ch.Data(w, len(ps), 0, "partner")]
	}
	v := w.complete(p, c, true, nil, true)
	h := mix(g.hash, p.hash, c.hash, 0x4e4d)
	g.hash = mix(h, 2)
	p.hash = mix(h, 1)
	c.hash = h
	return v, true
}

// complete finishes the blocked operation of partner p on channel c (p was sending if pSends) and
// makes p runnable. It returns the value p was sending, if any.
func (w *World) complete(p *G, c *vchan, pSends bool, v any, ok bool) any {
	o := p.pending
	var sent any
	switch o.kind {
	case opSend:
		sent = o.val
	case opRecv:
		o.rval, o.rok = v, ok
	case opSelect:
		for i, sc := range o.cases {
			if sc.ch == c && sc.send == pSends {
				o.chosen = i
				if pSends {
					sent = sc.val
				} else {
					o.rval, o.rok = v, ok
				}
				p.hash = mix(p.hash, uint64(i), 0x5e1)
				break
			}
		}
	}
	if w.opts.Trace {
		w.res.Trace = append(w.res.Trace, "       g"+p.ID+" completed by partner: "+opNames[o.kind]+" "+o.site)
	}
	w.resumed = append(w.resumed, p)
	w.lastPartners = append(w.lastPartners, p)
	return sent
}

// ---- API used by rewritten code ------------------------------------------------------------------

// SendTo returns a function sending to ch (so that the element type is inferred from the channel).
func SendTo[T any](ch chan<- T) func(T) {
	return func(v T) {
		w := W
		if w == nil {
			ch <- v
			return
		}
		if w.running.killed {
			runtime.Goexit()
		}
		id := chanID(ch)
		w.yield(&op{kind: opSend, ch: w.vc(ch, id, cap(ch)), val: v})
		w.postRelease()
	}
}

func conv[T any](v any) T {
	if v == nil {
		var z T
		return z
	}
	return v.(T)
}

// Recv is `<-ch`.
func Recv[T any](ch <-chan T) T {
	w := W
	if w == nil {
		return <-ch
	}
	if w.running.killed {
		runtime.Goexit()
	}
	o := &op{kind: opRecv, ch: w.vc(ch, chanID(ch), cap(ch))}
	w.yield(o)
	return conv[T](o.rval)
}

// Recv2 is `v, ok := <-ch`.
func Recv2[T any](ch <-chan T) (T, bool) {
	w := W
	if w == nil {
		v, ok := <-ch
		return v, ok
	}
	if w.running.killed {
		runtime.Goexit()
	}
	o := &op{kind: opRecv, ch: w.vc(ch, chanID(ch), cap(ch))}
	w.yield(o)
	return conv[T](o.rval), o.rok
}

// Close is `close(ch)`.
func Close[T any](ch chan<- T) {
	w := W
	if w == nil {
		close(ch)
		id := chanID(ch)
		nativeClosedMu.Lock()
		nativeClosed[id] = ch
		nativeClosedMu.Unlock()
		return
	}
	if w.running.killed {
		runtime.Goexit()
	}
	id := chanID(ch)
	if id == 0 {
		panic(chanPanic("close of nil channel"))
	}
	c := w.vc(ch, id, cap(ch))
	o := &op{kind: opNop, name: "close", obj: &c.hash}
	o.eff = func() {
		if c.closed {
			o.panicVal = chanPanic("close of closed channel")
			return
		}
		c.closed = true
	}
	w.yield(o)
	w.postRelease()
}

// Len is len(ch).
func Len[T any](ch chan T) int {
	w := W
	if w == nil {
		return len(ch)
	}
	c := w.vc(ch, chanID(ch), cap(ch))
	if c == nil {
		return 0
	}
	n := 0
	w.yield(&op{kind: opNop, name: "len", obj: &c.hash, eff: func() { n = len(c.buf) }})
	return n
}

// Case is a select case descriptor.
type Case interface {
	vsCase() (ch any, send bool, val any)
	set(v any, ok bool)
	native() reflect.SelectCase
}

type RC[T any] struct {
	ch <-chan T
	v  T
	ok bool
}

func RecvCase[T any](ch <-chan T) *RC[T]  { return &RC[T]{ch: ch} }
func (c *RC[T]) vsCase() (any, bool, any) { return c.ch, false, nil }
func (c *RC[T]) set(v any, ok bool)       { c.v, c.ok = conv[T](v), ok }
func (c *RC[T]) Get() (T, bool)           { return c.v, c.ok }
func (c *RC[T]) Val() T                   { return c.v }
func (c *RC[T]) native() reflect.SelectCase {
	return reflect.SelectCase{Dir: reflect.SelectRecv, Chan: reflect.ValueOf(c.ch)}
}

type SC[T any] struct {
	ch chan<- T
	v  T
}

type scBuilder[T any] struct{ ch chan<- T }

// SendCaseOf(ch).With(v) builds a send case; split so that T is inferred from the channel alone.
func SendCaseOf[T any](ch chan<- T) scBuilder[T] { return scBuilder[T]{ch} }
func (b scBuilder[T]) With(v T) *SC[T]           { return &SC[T]{ch: b.ch, v: v} }
func (c *SC[T]) vsCase() (any, bool, any)        { return c.ch, true, c.v }
func (c *SC[T]) set(v any, ok bool)              {}
func (c *SC[T]) native() reflect.SelectCase {
	return reflect.SelectCase{Dir: reflect.SelectSend, Chan: reflect.ValueOf(c.ch), Send: reflect.ValueOf(&c.v).Elem()}
}

// Select performs a select over the cases; it returns the index of the chosen case, -1 for default.
func Select(hasDefault bool, cases ...Case) int {
	w := W
	if w == nil {
		scs := make([]reflect.SelectCase, 0, len(cases)+1)
		for _, c := range cases {
			scs = append(scs, c.native())
		}
		if hasDefault {
			scs = append(scs, reflect.SelectCase{Dir: reflect.SelectDefault})
		}
		i, v, ok := reflect.Select(scs)
		if hasDefault && i == len(cases) {
			return -1
		}
		if scs[i].Dir == reflect.SelectRecv {
			if v.IsValid() && ok {
				cases[i].set(v.Interface(), ok)
			} else {
				cases[i].set(nil, ok)
			}
		}
		return i
	}
	if w.running.killed {
		runtime.Goexit()
	}
	o := &op{kind: opSelect, deflt: hasDefault, chosen: -1}
	o.cases = make([]selCase, len(cases))
	for i, c := range cases {
		ch, send, val := c.vsCase()
		id := chanID(ch)
		capacity := 0
		if id != 0 {
			capacity = reflect.ValueOf(ch).Cap()
		}
		o.cases[i] = selCase{ch: w.vc(ch, id, capacity), send: send, val: val}
	}
	w.yield(o)
	if o.chosen >= 0 {
		if !o.cases[o.chosen].send {
			cases[o.chosen].set(o.rval, o.rok)
		} else {
			w.postRelease()
		}
	}
	return o.chosen
}

func (w *World) postRelease() {
	if w.opts.PostRelease {
		w.yield(&op{kind: opNop, name: "post-release", eff: func() { w.cur.hash = mix(w.cur.hash, 0x9057) }})
	}
}

// ---- peeks for invariants (no scheduling point; harness/oracle use only) ---------------------------

// PeekLen is the number of buffered elements of ch.
func PeekLen[T any](ch <-chan T) int {
	w := W
	if w == nil {
		return len(ch)
	}
	c := w.chans[chanID(ch)]
	if c == nil {
		return 0
	}
	return len(c.buf)
}

// PeekClosed tells whether ch is closed.
func PeekClosed[T any](ch <-chan T) bool {
	w := W
	id := chanID(ch)
	if id == 0 {
		return false
	}
	if w == nil {
		nativeClosedMu.Lock()
		defer nativeClosedMu.Unlock()
		_, ok := nativeClosed[id]
		return ok
	}
	return w.vc(ch, id, cap(ch)).closed
}

// PeekSenders is the number of goroutines blocked in a send (or select send case) on ch.
func PeekSenders[T any](ch <-chan T) int {
	w := W
	if w == nil {
		return 0
	}
	c := w.chans[chanID(ch)]
	if c == nil {
		return 0
	}
	n := 0
	for _, g := range w.gs {
		if g.done || g.pending == nil {
			continue
		}
		o := g.pending
		if o.kind == opSend && o.ch == c {
			n++
		} else if o.kind == opSelect {
			for _, sc := range o.cases {
				if sc.send && sc.ch == c {
					n++
					break
				}
			}
		}
	}
	return n
}
