package explore

import (
	"fmt"
	"time"

	"verif/vs"
)

// Dynamic partial-order reduction (Flanagan & Godefroid, POPL 2005) with sleep sets, on top of the
// stateless re-execution engine: every Mazurkiewicz trace of the scenario is executed at least once,
// preemptions are unbounded. Independence: two transitions are independent iff their footprints
// (virtual objects touched) are disjoint or both only read them. Data choices inside a transition
// (ready select case, rendez-vous partner, harness Choose) are enumerated exhaustively.
//
// Only for scenarios whose oracles are trace-invariant (final state, hang, panic, Observe monitors):
// not every intermediate global state is visited.

const maxG = 96

// DebugDPOR prints every executed path (selftest debugging).
var DebugDPOR bool

type vclock []int32

func newClock() vclock { return make(vclock, maxG) }

func (c vclock) join(o vclock) {
	for i, v := range o {
		if v > c[i] {
			c[i] = v
		}
	}
}

func (c vclock) copy() vclock {
	n := make(vclock, maxG)
	copy(n, c)
	return n
}

type dNode struct {
	thread    bool
	enabled   []uint64
	current   uint64
	done      []uint64
	backtrack []uint64
	sleepIn   []uint64
	n, cur    int
	cost      int
	usedF     int
}

func has(xs []uint64, x uint64) bool {
	for _, y := range xs {
		if y == x {
			return true
		}
	}
	return false
}

type dEvent struct {
	node    int
	procs   [2]int
	fp      sleepEntry
	quiesce bool
	clock   vclock
}

type objClk struct {
	w vclock
	r vclock
}

type dpor struct {
	ex       *Explorer
	f        int
	stack    []*dNode
	firstNew int
	raceAdds int
}

type dChooser struct {
	d          *dpor
	pos        int // index into d.stack of the next point
	usedF      int
	events     []dEvent
	proc       []vclock // by G.Index
	known      int
	objs       map[*uint64]*objClk
	all        vclock
	lastGlob   vclock
	sleep      []sleepEntry
	epoch      int
	blocked    bool
	err        string
	pendFin    bool // last event awaits partner information
	newTr      int
	idx        map[uint64]int // idh -> G.Index
	firstNewEv int
	procEv     [][]int // by G.Index: indices of the events the process took part in
	gs         []*vs.G
	lastCp     vclock       // clock of the moving process before the last event
	fpSnap     []sleepEntry // footprints of all pending operations before the last transition, by G.Index
}

func (c *dChooser) fail(format string, a ...any) int {
	if c.err == "" {
		c.err = fmt.Sprintf(format, a...)
	}
	return -1
}

func (c *dChooser) isAsleep(g *vs.G) bool {
	for i := range c.sleep {
		if c.sleep[i].g == g {
			return true
		}
	}
	return false
}

func (c *dChooser) sync(w *vs.World) {
	gs := w.Goroutines()
	for ; c.known < len(gs); c.known++ {
		g := gs[c.known]
		cl := newClock()
		if p := g.Parent(); p != nil && p.Index < len(c.proc) {
			copy(cl, c.proc[p.Index])
		}
		if g.Index >= maxG {
			c.fail("ENGINE: more than %d goroutines", maxG)
			return
		}
		c.proc = append(c.proc, cl)
		c.procEv = append(c.procEv, nil)
		c.idx[g.IDH()] = g.Index
	}
	c.gs = gs
}

// finalize completes the bookkeeping of the last event once its rendez-vous partners are known.
func (c *dChooser) finalize(w *vs.World) {
	if !c.pendFin {
		return
	}
	c.pendFin = false
	e := &c.events[len(c.events)-1]
	isNew := len(c.events)-1 >= c.firstNewEv
	gs := w.Goroutines()
	// where did the goroutines that ran in this transition get parked? (the mover, its partners and the
	// goroutines spawned meanwhile): part of the transition's effect
	var park []*uint64
	addPark := func(g *vs.G) {
		for _, o := range w.ParkFootprint(g) {
			dup := false
			for _, x := range park {
				if x == o {
					dup = true
				}
			}
			if !dup {
				park = append(park, o)
			}
		}
	}
	addPark(gs[e.procs[0]])
	for _, q := range w.LastPartners() {
		addPark(q)
	}
	for i := c.known; i < len(gs); i++ {
		addPark(gs[i])
	}
	var beforeQ []vclock
	for _, q := range w.LastPartners() {
		if q.Index < len(c.proc) {
			beforeQ = append(beforeQ, c.proc[q.Index])
		} else {
			beforeQ = append(beforeQ, nil)
		}
	}
	defer func() {
		if len(park) == 0 {
			return
		}
		pfp := sleepEntry{objs: park}
		if isNew && !e.quiesce {
			c.analyze(len(c.events)-1, e.procs[0], c.lastCp, &pfp)
			for i, q := range w.LastPartners() {
				if beforeQ[i] != nil {
					c.analyze(len(c.events)-1, q.Index, beforeQ[i], &pfp)
				}
			}
		}
		for _, o := range park {
			oc := c.objs[o]
			if oc == nil {
				oc = &objClk{}
				c.objs[o] = oc
			}
			if oc.w != nil {
				e.clock.join(oc.w)
			}
			if oc.r != nil {
				e.clock.join(oc.r)
			}
			found := false
			for _, x := range e.fp.objs {
				if x == o {
					found = true
				}
			}
			if !found {
				e.fp.objs = append(e.fp.objs, o)
			}
		}
		e.fp.ro = false
		for _, pi := range e.procs {
			if pi >= 0 {
				c.proc[pi] = e.clock.copy()
			}
		}
		for _, o := range e.fp.objs {
			oc := c.objs[o]
			if oc == nil {
				oc = &objClk{}
				c.objs[o] = oc
			}
			oc.w = e.clock
			oc.r = nil
		}
		c.all.join(e.clock)
		k := 0
		for i := range c.sleep {
			if !dependent(&c.sleep[i], &pfp) {
				c.sleep[k] = c.sleep[i]
				k++
			}
		}
		c.sleep = c.sleep[:k]
	}()
	for _, q := range w.LastPartners() {
		if q.Index >= len(c.proc) || q.Index >= len(c.fpSnap) {
			continue
		}
		// the partner's blocked operation (e.g. a select over several channels) is part of this event:
		// analyse its races with its own footprint, then merge footprints and clocks
		qfp := c.fpSnap[q.Index]
		if isNew {
			c.analyze(len(c.events)-1, q.Index, c.proc[q.Index], &qfp)
			// the partner could also have moved by itself in that state (same rendez-vous, another partner,
			// or another ready case of its select): a dependent, co-enabled alternative
			node := c.d.stack[e.node]
			if has(node.enabled, q.IDH()) && !has(node.backtrack, q.IDH()) {
				node.backtrack = append(node.backtrack, q.IDH())
				c.d.raceAdds++
			}
		}
		e.clock.join(c.proc[q.Index])
		for _, o := range qfp.objs {
			oc := c.objs[o]
			if oc == nil {
				oc = &objClk{}
				c.objs[o] = oc
			}
			if oc.w != nil {
				e.clock.join(oc.w)
			}
			if oc.r != nil {
				e.clock.join(oc.r)
			}
			found := false
			for _, x := range e.fp.objs {
				if x == o {
					found = true
				}
			}
			if !found {
				e.fp.objs = append(e.fp.objs, o)
			}
		}
		e.fp.ro = false
		e.fp.global = e.fp.global || qfp.global
		e.clock[q.Index]++
		e.procs[1] = q.Index
		c.procEv[q.Index] = append(c.procEv[q.Index], len(c.events)-1)
		c.proc[q.Index] = e.clock.copy()
		c.proc[e.procs[0]] = e.clock.copy()
		for _, o := range e.fp.objs {
			oc := c.objs[o]
			oc.w = e.clock
			oc.r = nil
		}
		c.all.join(e.clock)
		// wake sleepers that depend on the partner's operation
		k := 0
		for i := range c.sleep {
			if c.sleep[i].g != q && !dependent(&c.sleep[i], &qfp) {
				c.sleep[k] = c.sleep[i]
				k++
			}
		}
		c.sleep = c.sleep[:k]
	}
}

// firstNewEvent: index of the first event of this run that was not executed by an earlier run.
func (d *dpor) firstNewEvent(c *dChooser) int {
	n := 0
	for i := 0; i < d.firstNew && i < len(d.stack); i++ {
		if d.stack[i].thread {
			n++
		}
	}
	return n
}

func (c *dChooser) involves(e *dEvent, p int) bool { return e.procs[0] == p || e.procs[1] == p }

func hb(e *dEvent, cp vclock) bool {
	q := e.procs[0]
	return cp[q] >= e.clock[q]
}

// analyze is the race detection of source-DPOR (Abdulla, Aronis, Jonsson, Sagonas, POPL 2014): for
// every earlier event e that is dependent with the (executed or pending) operation fp of process p,
// belongs to another process and does not happen-before p's current state, let v be the events
// after e that do not happen-after e, followed by p's operation; unless an initial of v is already
// in the backtrack set of the state before e, one is added. (All such e are treated as races, not
// only HB-adjacent ones: a superset of the backtrack points the algorithm needs.)
func (c *dChooser) analyze(j int, p int, cp vclock, fp *sleepEntry) {
	for i := j - 1; i >= 0; i-- {
		e := &c.events[i]
		if e.quiesce || c.involves(e, p) {
			continue
		}
		if !dependent(&e.fp, fp) {
			continue
		}
		if hb(e, cp) {
			continue
		}
		c.raceAt(i, j, p, cp, fp)
	}
}

// cntBefore: number of events involving process s with index < i.
func (c *dChooser) cntBefore(s, i int) int32 {
	if s >= len(c.procEv) {
		return 0
	}
	l := c.procEv[s]
	lo, hi := 0, len(l)
	for lo < hi {
		m := (lo + hi) / 2
		if l[m] < i {
			lo = m + 1
		} else {
			hi = m
		}
	}
	return int32(lo)
}

func hbEv(a, b *dEvent) bool {
	q := a.procs[0]
	return b.clock[q] >= a.clock[q]
}

func (c *dChooser) raceAt(i, j, p int, cp vclock, fp *sleepEntry) {
	ei := &c.events[i]
	node := c.d.stack[ei.node]
	np := len(c.procEv)
	var initials []uint64
	pHasEvents := false
	for r := 0; r < np; r++ {
		l := c.procEv[r]
		// first event of r after i
		lo, hi := 0, len(l)
		for lo < hi {
			m := (lo + hi) / 2
			if l[m] <= i {
				lo = m + 1
			} else {
				hi = m
			}
		}
		if lo >= len(l) || l[lo] >= j {
			continue
		}
		if r == p {
			pHasEvents = true
		}
		ek := &c.events[l[lo]]
		if hbEv(ei, ek) {
			continue
		}
		minimal := true
		for s := 0; s < np; s++ {
			past := ek.clock[s]
			if ek.procs[0] == s || ek.procs[1] == s {
				past--
			}
			if past > c.cntBefore(s, i) {
				minimal = false
				break
			}
		}
		if minimal {
			initials = append(initials, c.gs[r].IDH())
		}
	}
	if !pHasEvents {
		ok := true
		for s := 0; s < np && ok; s++ {
			if cp[s] > c.cntBefore(s, i) {
				ok = false
			}
		}
		for m := i + 1; m < j && ok; m++ {
			em := &c.events[m]
			if !hbEv(ei, em) && dependent(&em.fp, fp) {
				ok = false
			}
		}
		if ok && p < len(c.gs) {
			initials = append(initials, c.gs[p].IDH())
		}
	}
	for _, q := range initials {
		if has(node.backtrack, q) {
			return
		}
	}
	var pick uint64
	found := false
	for _, q := range initials {
		if has(node.enabled, q) && !has(node.sleepIn, q) {
			pick, found = q, true
			break
		}
	}
	if !found {
		for _, q := range initials {
			if has(node.enabled, q) {
				pick, found = q, true
				break
			}
		}
	}
	if found {
		node.backtrack = append(node.backtrack, pick)
		c.d.raceAdds++
		return
	}
	for _, q := range node.enabled {
		if !has(node.backtrack, q) {
			node.backtrack = append(node.backtrack, q)
			c.d.raceAdds++
		}
	}
}

func (c *dChooser) Thread(w *vs.World, alts []vs.ThreadAlt, curEnabled bool) int {
	c.finalize(w)
	c.sync(w)
	if c.err != "" {
		return -1
	}
	if ep := w.ClockEpoch(); ep != c.epoch {
		c.epoch = ep
		c.sleep = c.sleep[:0]
	}
	d := c.d
	var node *dNode
	choice := -1
	if c.pos < len(d.stack) {
		node = d.stack[c.pos]
		if !node.thread || len(node.enabled) != len(alts) {
			return c.fail("NONDETERMINISM: point %d replayed with %d alternatives, recorded %d (thread=%v)", c.pos, len(alts), len(node.enabled), node.thread)
		}
		for i, a := range alts {
			if a.Timer || a.G.IDH() != node.enabled[i] {
				return c.fail("NONDETERMINISM: point %d alternative %d differs on replay", c.pos, i)
			}
			if a.G.IDH() == node.current {
				choice = i
			}
		}
		if choice < 0 {
			return c.fail("ENGINE: chosen goroutine not among alternatives at point %d", c.pos)
		}
	} else {
		for i, a := range alts {
			if a.Timer {
				return c.fail("ENGINE: DPOR mode does not support the nondeterministic clock policy")
			}
			if choice < 0 && !c.isAsleep(a.G) {
				choice = i
			}
		}
		if choice < 0 {
			c.blocked = true
			return -1
		}
		node = &dNode{thread: true, enabled: make([]uint64, len(alts))}
		for i, a := range alts {
			node.enabled[i] = a.G.IDH()
		}
		node.current = alts[choice].G.IDH()
		node.done = []uint64{node.current}
		node.backtrack = []uint64{node.current}
		d.stack = append(d.stack, node)
	}
	node.sleepIn = node.sleepIn[:0]
	for i := range c.sleep {
		node.sleepIn = append(node.sleepIn, c.sleep[i].g.IDH())
	}
	isNew := c.pos >= d.firstNew
	if isNew {
		c.newTr++
		if len(c.d.ex.seen) < 2000000 {
			c.d.ex.seen[w.StateKey()] = struct{}{}
		}
	}
	// sleep set: siblings explored earlier from this state sleep; then wake what depends on the move
	for i, a := range alts {
		if i != choice && has(node.done, a.G.IDH()) && !c.isAsleep(a.G) {
			c.sleep = append(c.sleep, sleepEntryOf(w, a))
		}
	}
	g := alts[choice].G
	u := entryOf(w, alts[choice])
	k := 0
	for i := range c.sleep {
		if c.sleep[i].g != g && !dependent(&c.sleep[i], &u) {
			c.sleep[k] = c.sleep[i]
			k++
		}
	}
	c.sleep = c.sleep[:k]

	// event, races, clocks
	ev := dEvent{node: c.pos, procs: [2]int{g.Index, -1}, fp: u, quiesce: g.IsQuiesce()}
	cp := c.proc[g.Index]
	c.lastCp = cp
	c.events = append(c.events, ev)
	j := len(c.events) - 1
	c.procEv[g.Index] = append(c.procEv[g.Index], j)
	if isNew && !ev.quiesce {
		c.analyze(j, g.Index, cp, &c.events[j].fp)
	}
	cl := cp.copy()
	cl.join(c.lastGlob)
	if u.global {
		cl.join(c.all)
	}
	for _, o := range u.objs {
		oc := c.objs[o]
		if oc == nil {
			oc = &objClk{}
			c.objs[o] = oc
		}
		if oc.w != nil {
			cl.join(oc.w)
		}
		if !u.ro && oc.r != nil {
			cl.join(oc.r)
		}
	}
	cl[g.Index]++
	for _, o := range u.objs {
		oc := c.objs[o]
		if u.ro {
			if oc.r == nil {
				oc.r = newClock()
			}
			oc.r.join(cl)
		} else {
			oc.w = cl
			oc.r = nil
		}
	}
	c.events[j].clock = cl
	c.proc[g.Index] = cl
	c.all.join(cl)
	if u.global {
		c.lastGlob = cl
	}
	// footprints of every blocked operation, in case the transition completes it as a partner
	gs := w.Goroutines()
	if cap(c.fpSnap) < len(gs) {
		c.fpSnap = make([]sleepEntry, len(gs))
	}
	c.fpSnap = c.fpSnap[:len(gs)]
	for i, x := range gs {
		if x != g && !x.Done() && x.HasPending() {
			c.fpSnap[i] = entryOf(w, vs.ThreadAlt{G: x})
		} else {
			c.fpSnap[i] = sleepEntry{}
		}
	}
	c.pendFin = true
	c.pos++
	return choice
}

func (c *dChooser) Data(w *vs.World, n int, cost int, what string) int {
	d := c.d
	var node *dNode
	if c.pos < len(d.stack) {
		node = d.stack[c.pos]
		if node.thread || node.n != n {
			c.fail("NONDETERMINISM: data point %d (%s) replayed with %d alternatives, recorded thread=%v n=%d", c.pos, what, n, node.thread, node.n)
			return 0
		}
	} else {
		node = &dNode{n: n, cost: cost, usedF: c.usedF}
		d.stack = append(d.stack, node)
	}
	if node.cur != 0 {
		c.usedF += cost
	}
	c.pos++
	return node.cur
}

func (c *dChooser) End(w *vs.World) {
	if c.err != "" {
		return
	}
	c.finalize(w)
	c.sync(w)
	// operations that stay blocked for ever still race with what was executed
	for _, g := range w.Goroutines() {
		if g.Done() || !g.HasPending() || g.IsQuiesce() || g.Index >= len(c.proc) {
			continue
		}
		fp := entryOf(w, vs.ThreadAlt{G: g})
		c.analyze(len(c.events), g.Index, c.proc[g.Index], &fp)
	}
}

func (ex *Explorer) searchDPOR(f int) bool {
	d := &dpor{ex: ex, f: f}
	ex.seen = map[uint64]struct{}{}
	for {
		if ex.st.Executions&63 == 0 && !ex.Deadline.IsZero() && time.Now().After(ex.Deadline) {
			ex.st.Capped = "deadline"
			return false
		}
		if ex.st.Executions&4095 == 4095 && heapTooLarge() {
			ex.st.Capped = "deadline (memory limit of the worker reached first)"
			return false
		}
		if ex.sc.MaxExec > 0 && ex.st.Executions >= ex.sc.MaxExec {
			ex.st.Capped = "max_exec"
			return false
		}
		c := &dChooser{d: d, objs: map[*uint64]*objClk{}, all: newClock(), lastGlob: newClock(), idx: map[uint64]int{}}
		c.firstNewEv = d.firstNewEvent(c)
		res := vs.Run(ex.sc.Opts, c, ex.sc.Body)
		ex.st.Executions++
		ex.st.Transitions += c.newTr
		if c.err != "" || res.EngineError != "" {
			ex.st.EngineError = c.err + res.EngineError
			return false
		}
		if len(d.stack) > ex.st.MaxDepth {
			ex.st.MaxDepth = len(d.stack)
		}
		if DebugDPOR {
			s := ""
			for i, n := range d.stack {
				if n.thread {
					s += fmt.Sprintf(" %d:T%x%v/bt%d/sl%d", i, n.current&0xfff, len(n.enabled), len(n.backtrack), len(n.sleepIn))
				} else {
					s += fmt.Sprintf(" %d:D%d/%d", i, n.cur, n.n)
				}
			}
			fmt.Printf("run %d blocked=%v firstNew=%d pos=%d:%s\n", ex.st.Executions, c.blocked, d.firstNew, c.pos, s)
		}
		if c.blocked {
			ex.st.SleepBlocked++
		} else {
			ex.st.Complete++
			if res.Horizon {
				ex.st.HorizonHits++
				ex.st.Exhaustive = false
			}
			oh := outcomeHash(&res)
			ex.outcomes[oh] = struct{}{}
			if len(res.Alive) > 0 || res.Steps > 3 {
				ex.nontriv[oh] = struct{}{}
			}
			if fs := ex.verdict(&res); len(fs) > 0 {
				choices := d.choices(c)
				if !ex.record(choices, fs, -1, f) {
					return false
				}
			}
		}
		// backtrack
		for len(d.stack) > 0 {
			n := d.stack[len(d.stack)-1]
			advanced := false
			if n.thread {
				for _, q := range n.backtrack {
					if !has(n.done, q) && !has(n.sleepIn, q) {
						n.current = q
						n.done = append(n.done, q)
						advanced = true
						break
					}
				}
			} else if n.cur+1 < n.n && n.usedF+n.cost <= f {
				n.cur++
				advanced = true
			}
			if advanced {
				break
			}
			d.stack = d.stack[:len(d.stack)-1]
		}
		if len(d.stack) == 0 {
			return true
		}
		d.firstNew = len(d.stack) - 1
	}
}

// choices converts the path just executed into the index sequence understood by Replay.
func (d *dpor) choices(c *dChooser) []int {
	out := make([]int, 0, len(d.stack))
	for _, n := range d.stack[:min(c.pos, len(d.stack))] {
		if n.thread {
			for i, e := range n.enabled {
				if e == n.current {
					out = append(out, i)
					break
				}
			}
		} else {
			out = append(out, n.cur)
		}
	}
	return out
}

func min(a, b int) int {
	if a < b {
		return a
	}
	return b
}
