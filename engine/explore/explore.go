// Package explore is the stateless depth-first explorer: it re-executes a scenario under every
// choice sequence (thread to run, ready select case, rendez-vous partner, harness Choose, early timer)
// within a preemption bound c and a fault bound f, with optional state caching on the
// happens-before hash of the executed prefix.
package explore

import (
	"fmt"
	"hash/fnv"
	"os"
	"runtime"
	"strings"
	"time"

	"verif/vs"
)

// Scenario is one closed system to explore.
type Scenario struct {
	Name    string
	Opts    vs.Options
	Body    func()
	NoCache bool // oracles that depend on the linear order of independent operations
	// DataOnly: one (default) schedule per combination of data choices — for properties quantified over
	// programs / inputs / fault placements rather than schedules. Thread alternatives are not explored.
	DataOnly bool
	// DPOR: dynamic partial-order reduction + sleep sets (see dpor.go); same restriction on oracles.
	DPOR bool
	// With DPOR set and C >= 0 both searches run: first the preemption-bounded cached search up to C
	// (which does not assume data-race freedom), then DPOR for at most DPORSeconds (0: until the
	// deadline). The evidence reports the bound completed and whether DPOR finished.
	DPORSeconds float64
	C           int  // preemption bound (-1: unbounded)
	F           int  // fault bound (Choose with cost, early timers)
	HangOK      bool // the body being blocked at the end is not a violation by itself
	PanicOK     bool // an uncaught panic is not a violation by itself (the scenario inspects it)
	// Check is an additional oracle on the finished execution (runs outside the world).
	Check func(r *vs.Result) []vs.Failure
	// Nontrivial classifies an outcome for the evidence counts (default: >1 goroutine or a fault).
	MaxExec int
	// Known classifies a failure as a listed known finding (id) or "" — known findings do not stop the search.
	Known func(f vs.Failure) string
}

type point struct {
	thread     bool
	n          int
	chosen     int
	curEnabled bool
	timerIdx   int
	cost       int // data: fault cost of non-zero answer
	usedC      int // budgets used before this point
	usedF      int
	asleep     uint64 // sleep mode: alternatives that were asleep at this point
}

type run struct {
	points []point
}

type item struct {
	parent *run
	i      int
	alt    int
}

type Violation struct {
	Scenario string       `json:"scenario"`
	Clause   string       `json:"clause"`
	Msg      string       `json:"msg"`
	Choices  []int        `json:"choices"`
	Known    string       `json:"known,omitempty"`
	C        int          `json:"c"`
	F        int          `json:"f"`
	Obs      []string     `json:"observations,omitempty"`
	Trace    []string     `json:"trace,omitempty"`
	Alive    []vs.AliveG  `json:"alive,omitempty"`
	Panic    string       `json:"panic,omitempty"`
	All      []vs.Failure `json:"all_failures,omitempty"`
}

type Stats struct {
	Scenario     string      `json:"scenario"`
	Executions   int         `json:"executions"`
	Complete     int         `json:"complete_executions"`
	Pruned       int         `json:"pruned_executions"`
	SleepBlocked int         `json:"sleep_blocked_executions"`
	States       int         `json:"states"`
	Transitions  int         `json:"transitions"`
	HorizonHits  int         `json:"horizon_hits"`
	Outcomes     int         `json:"distinct_outcomes"`
	Nontrivial   int         `json:"distinct_nontrivial"`
	MaxDepth     int         `json:"max_depth"`
	BoundC       int         `json:"c_completed"`
	BoundF       int         `json:"f"`
	Exhaustive   bool        `json:"exhaustive"`
	Capped       string      `json:"capped,omitempty"`
	WallS        float64     `json:"wall_s"`
	Sample       []string    `json:"sample,omitempty"`
	SampleTrace  []string    `json:"sample_trace,omitempty"`
	EngineError  string      `json:"engine_error,omitempty"`
	Violations   []Violation `json:"violations,omitempty"`
	ViolationCnt int         `json:"violation_count"`
	KnownCnt     int         `json:"known_count"`
	DPORComplete bool        `json:"dpor_complete"`
}

type chooser struct {
	ex     *Explorer
	prefix []int
	points []point
	usedC  int
	usedF  int
	c, f   int
	replay bool // pure replay: no cache, no pruning
	err    string
	newTr  int
}

type sleepEntry struct {
	g      *vs.G
	objs   []*uint64
	ro     bool
	global bool
}

func dependent(a, b *sleepEntry) bool {
	if a.global || b.global {
		return true
	}
	if a.ro && b.ro {
		return false
	}
	for _, x := range a.objs {
		for _, y := range b.objs {
			if x == y {
				return true
			}
		}
	}
	return false
}

func entryOf(w *vs.World, a vs.ThreadAlt) sleepEntry {
	if a.Timer {
		return sleepEntry{global: true}
	}
	objs, ro, gl := w.Footprint(a.G)
	return sleepEntry{g: a.G, objs: objs, ro: ro, global: gl}
}

// sleepEntryOf is entryOf for an operation that is put to sleep: a dynamic footprint (context
// cancel) may grow while it sleeps, so it is treated as dependent with everything.
func sleepEntryOf(w *vs.World, a vs.ThreadAlt) sleepEntry {
	e := entryOf(w, a)
	if !a.Timer && w.DynamicFootprint(a.G) {
		e.global = true
	}
	return e
}

func (ch *chooser) Thread(w *vs.World, alts []vs.ThreadAlt, curEnabled bool) int {
	pos := len(ch.points)
	timerIdx := -1
	for i, a := range alts {
		if a.Timer {
			timerIdx = i
		}
	}
	choice := 0
	if pos < len(ch.prefix) {
		choice = ch.prefix[pos]
		if choice >= len(alts) {
			ch.err = fmt.Sprintf("NONDETERMINISM: replayed choice %d at point %d but only %d alternatives", choice, pos, len(alts))
			return -1
		}
	} else if !ch.replay {
		key := w.StateKey()
		if curEnabled && ch.c >= 0 {
			key ^= w.CurID() * 0x9e3779b97f4a7c15
		}
		ex := ch.ex
		if ex.useCache {
			remC, remF := ch.c-ch.usedC, ch.f-ch.usedF
			if ch.c < 0 {
				remC = 1 << 20
			}
			if b, ok := ex.cache[key]; ok && int(b.c) >= remC && int(b.f) >= remF {
				return -1
			}
			ex.cache[key] = budget{int32(remC), int32(remF)}
		} else {
			ex.seen[key] = struct{}{}
		}
		ch.newTr++
	}
	p := point{thread: true, n: len(alts), chosen: choice, curEnabled: curEnabled, timerIdx: timerIdx, usedC: ch.usedC, usedF: ch.usedF}
	ch.points = append(ch.points, p)
	if choice == timerIdx {
		ch.usedF++
	} else if curEnabled && choice != 0 {
		ch.usedC++
	}
	return choice
}

func (ch *chooser) Data(w *vs.World, n int, cost int, what string) int {
	pos := len(ch.points)
	choice := 0
	if pos < len(ch.prefix) {
		choice = ch.prefix[pos]
		if choice >= n {
			ch.err = fmt.Sprintf("NONDETERMINISM: replayed data choice %d at point %d but only %d alternatives (%s)", choice, pos, n, what)
			choice = 0
		}
	}
	ch.points = append(ch.points, point{n: n, chosen: choice, cost: cost, timerIdx: -1, usedC: ch.usedC, usedF: ch.usedF})
	if choice != 0 {
		ch.usedF += cost
	}
	return choice
}

func (ch *chooser) End(w *vs.World) {}

type budget struct{ c, f int32 }

type Explorer struct {
	surveySeen map[string]bool
	sc         *Scenario
	cache      map[uint64]budget
	seen       map[uint64]struct{}
	useCache   bool
	outcomes   map[uint64]struct{}
	nontriv    map[uint64]struct{}
	Deadline   time.Time
	st         Stats
}

func outcomeHash(r *vs.Result) uint64 {
	h := fnv.New64a()
	for _, o := range r.Obs {
		h.Write([]byte(o))
		h.Write([]byte{0})
	}
	for _, f := range r.Failures {
		h.Write([]byte(f.Clause))
	}
	if !r.BodyDone {
		h.Write([]byte("hang"))
	}
	h.Write([]byte(r.Panic))
	return h.Sum64()
}

func (ex *Explorer) exec(prefix []int, c, f int, replay, trace bool) (*chooser, vs.Result) {
	ch := &chooser{ex: ex, prefix: prefix, c: c, f: f, replay: replay}
	opts := ex.sc.Opts
	opts.Trace = trace
	res := vs.Run(opts, ch, ex.sc.Body)
	return ch, res
}

// verdict returns the failures of a finished (non-pruned) execution.
func (ex *Explorer) verdict(res *vs.Result) []vs.Failure {
	var fs []vs.Failure
	fs = append(fs, res.Failures...)
	if res.Panic != "" && !ex.sc.PanicOK {
		fs = append(fs, vs.Failure{Clause: "panic", Msg: res.Panic + "\n" + res.PanicG})
	}
	if !res.Horizon && res.Panic == "" && !res.BodyDone && !ex.sc.HangOK {
		var bl []string
		for _, a := range res.Alive {
			bl = append(bl, fmt.Sprintf("g%s(%s %s)@%s", a.ID, a.Name, a.Site, a.Op))
		}
		fs = append(fs, vs.Failure{Clause: "hang", Msg: "scenario body blocked forever; alive: " + strings.Join(bl, ", ")})
	}
	if ex.sc.Check != nil && !res.Horizon {
		fs = append(fs, ex.sc.Check(res)...)
	}
	return fs
}

// Explore runs the scenario to its bounds (iterative context bounding on c).
func Explore(sc *Scenario, deadline time.Time) (result Stats) {
	start := time.Now()
	defer func() { result.WallS = time.Since(start).Seconds() }()
	ex := &Explorer{sc: sc, Deadline: deadline, outcomes: map[uint64]struct{}{}, nontriv: map[uint64]struct{}{}}
	ex.useCache = !sc.NoCache && !sc.DataOnly
	ex.st = Stats{Scenario: sc.Name, BoundC: -2, BoundF: sc.F, Exhaustive: true}

	// determinism self-check: the default schedule twice, identical observations and points.
	c1, r1 := ex.exec(nil, 0, 0, true, true)
	c2, r2 := ex.exec(nil, 0, 0, true, true)
	if c1.err != "" || !sameRun(c1, c2, &r1, &r2) {
		ex.st.EngineError = "NONDETERMINISM: default schedule replayed twice differs. " + c1.err + diffRun(&r1, &r2)
		ex.st.Exhaustive = false
		// The code under test keeps state between executions (a package-level cache, say), so nothing can be explored.
		// If the default schedule violates the same clause both times all the same, that violation is real and
		// reproduced: it is reported next to the engine error instead of being lost behind it.
		if c1.err == "" && c2.err == "" {
			f1, f2 := ex.verdict(&r1), ex.verdict(&r2)
			if len(f1) > 0 && len(f2) > 0 && f1[0].Clause == f2[0].Clause {
				ex.st.ViolationCnt++
				ex.st.Violations = append(ex.st.Violations, Violation{Scenario: sc.Name, Clause: f2[0].Clause,
					Msg: f2[0].Msg + " (in both runs of the default schedule; the two runs differ from each other: the code under test keeps state between executions)",
					Choices: nil, Obs: r2.Obs, Trace: r2.Trace, Alive: r2.Alive, Panic: r2.Panic, All: f2})
			}
		}
		return ex.st
	}
	if os.Getenv("VS_DEBUG_POINTS") != "" {
		for i, p := range c1.points {
			if p.n > 1 {
				fmt.Fprintf(os.Stderr, "point %d thread=%v n=%d curEnabled=%v\n", i, p.thread, p.n, p.curEnabled)
			}
		}
	}
	ex.st.Sample = r1.Obs
	if len(r1.Trace) > 60 {
		ex.st.SampleTrace = append(append([]string{}, r1.Trace[:60]...), fmt.Sprintf("... (%d more)", len(r1.Trace)-60))
	} else {
		ex.st.SampleTrace = r1.Trace
	}

	bounds := []int{}
	if sc.C < 0 && sc.DPOR {
		// unbounded via DPOR only
	} else if sc.C < 0 {
		bounds = []int{-1}
	} else {
		for c := 0; c <= sc.C; c++ {
			bounds = append(bounds, c)
		}
	}
	for _, c := range bounds {
		ex.cache = map[uint64]budget{}
		ex.seen = map[uint64]struct{}{}
		ok := ex.search(c, sc.F)
		n := len(ex.cache) + len(ex.seen)
		if n > ex.st.States {
			ex.st.States = n
		}
		if !ok {
			ex.st.Exhaustive = false
			break
		}
		ex.st.BoundC = c
	}
	if sc.DPOR && ex.st.EngineError == "" && len(ex.st.Violations) == 0 || sc.DPOR && ex.st.EngineError == "" && ex.st.Capped == "" {
		bounded := ex.st.Exhaustive
		states := ex.st.States
		ex.useCache = false
		full := ex.Deadline
		if sc.DPORSeconds > 0 {
			dl := time.Now().Add(time.Duration(sc.DPORSeconds * float64(time.Second)))
			if full.IsZero() || dl.Before(full) {
				ex.Deadline = dl
			}
		}
		done := ex.searchDPOR(sc.F)
		ex.Deadline = full
		if len(ex.seen) > states {
			states = len(ex.seen)
		}
		ex.st.States = states
		ex.st.DPORComplete = done
		if done {
			ex.st.BoundC = -1
			ex.st.Exhaustive = true
			ex.st.Capped = ""
		} else if strings.HasPrefix(ex.st.Capped, "deadline") && sc.C >= 0 {
			// DPOR ran out of time: the bounded search result stands
			ex.st.Capped = "dpor: deadline"
			ex.st.Exhaustive = bounded
			if sc.DPORSeconds > 0 && bounded {
				ex.st.Capped = ""
			}
		} else {
			ex.st.Exhaustive = false
		}
	}
	ex.st.Outcomes = len(ex.outcomes)
	ex.st.Nontrivial = len(ex.nontriv)
	return ex.st
}

func sameRun(a, b *chooser, ra, rb *vs.Result) bool {
	if len(a.points) != len(b.points) || len(ra.Obs) != len(rb.Obs) || ra.Steps != rb.Steps {
		return false
	}
	for i := range a.points {
		if a.points[i].n != b.points[i].n || a.points[i].thread != b.points[i].thread {
			return false
		}
	}
	for i := range ra.Obs {
		if ra.Obs[i] != rb.Obs[i] {
			return false
		}
	}
	return true
}

func diffRun(ra, rb *vs.Result) string {
	for i := range ra.Trace {
		if i >= len(rb.Trace) || ra.Trace[i] != rb.Trace[i] {
			o := ""
			if i < len(rb.Trace) {
				o = rb.Trace[i]
			}
			return fmt.Sprintf(" first difference at trace line %d: %q vs %q", i, ra.Trace[i], o)
		}
	}
	for i := range ra.Obs {
		if i >= len(rb.Obs) || ra.Obs[i] != rb.Obs[i] {
			return fmt.Sprintf(" obs %d differ: %q", i, ra.Obs[i])
		}
	}
	return ""
}

func (ex *Explorer) search(c, f int) bool {
	stack := []item{{}}
	first := true
	for len(stack) > 0 {
		it := stack[len(stack)-1]
		stack = stack[:len(stack)-1]
		var prefix []int
		if !first {
			prefix = make([]int, it.i+1)
			for k := 0; k < it.i; k++ {
				prefix[k] = it.parent.points[k].chosen
			}
			prefix[it.i] = it.alt
		}
		first = false
		if ex.st.Executions&63 == 0 && !ex.Deadline.IsZero() && time.Now().After(ex.Deadline) {
			ex.st.Capped = "deadline"
			return false
		}
		if ex.st.Executions&4095 == 4095 && heapTooLarge() {
			ex.st.Capped = "deadline (memory limit of the worker reached first)"
			return false
		}
		if ex.sc.MaxExec > 0 && ex.st.Executions >= ex.sc.MaxExec {
			ex.st.Capped = "max_exec"
			return false
		}
		ch, res := ex.exec(prefix, c, f, false, false)
		ex.st.Executions++
		ex.st.Transitions += ch.newTr
		if ch.err != "" || res.EngineError != "" {
			ex.st.EngineError = ch.err + res.EngineError
			return false
		}
		if len(ch.points) > ex.st.MaxDepth {
			ex.st.MaxDepth = len(ch.points)
		}
		if res.Aborted {
			ex.st.Pruned++
		} else {
			ex.st.Complete++
			if res.Horizon {
				ex.st.HorizonHits++
				ex.st.Exhaustive = false
			}
			oh := outcomeHash(&res)
			ex.outcomes[oh] = struct{}{}
			if len(res.Alive) > 0 || res.Steps > 3 {
				ex.nontriv[oh] = struct{}{}
			}
			if fs := ex.verdict(&res); len(fs) > 0 {
				choices := make([]int, len(ch.points))
				for i, p := range ch.points {
					choices[i] = p.chosen
				}
				if !ex.record(choices, fs, c, f) {
					return false
				}
			}
		}
		r := &run{points: ch.points}
		for i := len(ch.points) - 1; i >= len(prefix); i-- {
			p := ch.points[i]
			if ex.sc.DataOnly && p.thread {
				continue
			}
			for alt := p.n - 1; alt >= 1; alt-- {
				uc, uf := p.usedC, p.usedF
				if p.thread {
					if alt == p.timerIdx {
						uf++
					} else if p.curEnabled {
						uc++
					}
				} else {
					uf += p.cost
				}
				if (c >= 0 && uc > c) || uf > f {
					continue
				}
				stack = append(stack, item{parent: r, i: i, alt: alt})
			}
		}
	}
	return true
}

func (ex *Explorer) haveKnown(id string) bool {
	for _, v := range ex.st.Violations {
		if v.Known == id {
			return true
		}
	}
	return false
}

// record files the failures of one execution: listed known findings are counted (the first of each
// is confirmed and kept), anything else is confirmed and stops the search of this scenario.
func (ex *Explorer) record(choices []int, fs []vs.Failure, c, f int) bool {
	var unk []vs.Failure
	kid := ""
	for _, fl := range fs {
		if ex.sc.Known != nil {
			if id := ex.sc.Known(fl); id != "" {
				if kid == "" {
					kid = id
				}
				continue
			}
		}
		unk = append(unk, fl)
	}
	if len(unk) > 0 && os.Getenv("VERIF_SURVEY") != "" {
		// development aid: keep searching and collect one representative per distinct failure text
		ex.st.ViolationCnt++
		key := unk[0].Clause + "|" + unk[0].Msg
		if ex.surveySeen == nil {
			ex.surveySeen = map[string]bool{}
		}
		if !ex.surveySeen[key] && len(ex.surveySeen) < 200 {
			ex.surveySeen[key] = true
			if v := ex.confirm(choices, unk, c, f); v != nil {
				ex.st.Violations = append(ex.st.Violations, *v)
			}
		}
		return true
	}
	if len(unk) > 0 {
		ex.st.ViolationCnt++
		v := ex.confirm(choices, unk, c, f)
		if v == nil {
			return false
		}
		ex.st.Violations = append(ex.st.Violations, *v)
		ex.st.Capped = "stopped at first unlisted violation"
		return false
	}
	ex.st.KnownCnt++
	if !ex.haveKnown(kid) {
		v := ex.confirm(choices, fs, c, f)
		if v == nil {
			return false
		}
		v.Known = kid
		ex.st.Violations = append(ex.st.Violations, *v)
	}
	return true
}

// confirm replays a violating choice sequence five times with tracing; all replays must agree.
func (ex *Explorer) confirm(choices []int, fs []vs.Failure, c, f int) *Violation {
	var v *Violation
	for k := 0; k < 5; k++ {
		rc, res := ex.exec(choices, c, f, true, true)
		fs2 := ex.verdict(&res)
		if rc.err != "" || len(fs2) == 0 || fs2[0].Clause != fs[0].Clause {
			ex.st.EngineError = fmt.Sprintf("NONDETERMINISM: violation %q not reproduced on replay %d (%s)", fs[0].Clause, k, rc.err)
			return nil
		}
		if v == nil {
			v = &Violation{Scenario: ex.sc.Name, Clause: fs2[0].Clause, Msg: fs2[0].Msg, Choices: choices, C: c, F: f,
				Obs: res.Obs, Trace: res.Trace, Alive: res.Alive, Panic: res.Panic, All: fs2}
		}
	}
	return v
}

// Replay re-executes one recorded choice sequence with tracing.
func Replay(sc *Scenario, choices []int) (vs.Result, []vs.Failure, string) {
	ex := &Explorer{sc: sc}
	ch, res := ex.exec(choices, 1<<20, 1<<20, true, true)
	return res, ex.verdict(&res), ch.err
}

// heapTooLarge: the state cache of a long search has outgrown what sixteen parallel workers can share; the
// search stops like at a deadline (not exhaustive), it is never killed by the system.
func heapTooLarge() bool {
	var m runtime.MemStats
	runtime.ReadMemStats(&m)
	return m.HeapAlloc > 3<<30
}
