// Command rewrite instruments Go packages for the vs runtime: it parses the *current* files of the
// target packages, replaces every concurrency construct by a vs shim and writes the result plus a
// `go build -overlay` file. /repo itself is never modified.
package main

import (
	"bytes"
	"crypto/sha256"
	"encoding/json"
	"flag"
	"fmt"
	"go/ast"
	"go/importer"
	"go/parser"
	"go/printer"
	"go/token"
	"go/types"
	"io"
	"os"
	"os/exec"
	"path/filepath"
	"sort"
	"strconv"
	"strings"

	"golang.org/x/tools/go/ast/astutil"
)

type listPkg struct {
	ImportPath   string
	Dir          string
	GoFiles      []string
	TestGoFiles  []string
	XTestGoFiles []string
	Export       string
	Standard     bool
	ForTest      string
	Module       *struct{ Path string }
}

var (
	outDir   = flag.String("out", "", "output directory")
	modDir   = flag.String("mod", "/verif/engine", "module directory in which go list runs")
	withTest = flag.Bool("tests", false, "also rewrite _test.go files of the watermill packages")
	extra    = flag.String("extra", "", "comma separated additional import paths to rewrite (e.g. test-only packages)")
	verbose  = flag.Bool("v", false, "verbose")
)

const vsPath = "verif/vs"

// preOverlay maps accessor files (which exist only in the overlay) to their sources.
var preOverlay = map[string]string{}

func isTarget(p *listPkg) bool {
	if p.Standard {
		return false
	}
	ip := p.ImportPath
	if strings.HasPrefix(ip, "verif/harness") {
		return true
	}
	if ip == "github.com/cenkalti/backoff/v3" {
		return true
	}
	if p.Module != nil && p.Module.Path == "github.com/ThreeDotsLabs/watermill" {
		return true
	}
	return false
}

type stats struct {
	Go, Send, Recv, Close, Select, RangeChan, RangeMap, Selector, Len int
}

func (s *stats) add(o stats) {
	s.Go += o.Go
	s.Send += o.Send
	s.Recv += o.Recv
	s.Close += o.Close
	s.Select += o.Select
	s.RangeChan += o.RangeChan
	s.RangeMap += o.RangeMap
	s.Selector += o.Selector
	s.Len += o.Len
}

func main() {
	flag.Parse()
	if *outDir == "" || flag.NArg() == 0 {
		fmt.Fprintln(os.Stderr, "usage: rewrite -out DIR patterns...")
		os.Exit(2)
	}
	// accessor files must already be visible to `go list -export` (the harness packages refer to them)
	pre := preOverlay
	if ents, err := os.ReadDir(filepath.Join(*modDir, "accessors")); err == nil {
		for _, d := range ents {
			adir := filepath.Join(*modDir, "accessors", d.Name())
			ipb, err := os.ReadFile(filepath.Join(adir, "importpath"))
			if err != nil {
				continue
			}
			lc := exec.Command("go", "list", "-f", "{{.Dir}}", strings.TrimSpace(string(ipb)))
			lc.Dir = *modDir
			dirb, err := lc.Output()
			if err != nil {
				fmt.Fprintln(os.Stderr, "rewrite: cannot locate accessor package", string(ipb))
				os.Exit(2)
			}
			files, _ := os.ReadDir(adir)
			for _, f := range files {
				if strings.HasSuffix(f.Name(), ".go.txt") {
					pre[filepath.Join(strings.TrimSpace(string(dirb)), "zz_verif_"+strings.TrimSuffix(f.Name(), ".txt"))] = filepath.Join(adir, f.Name())
				}
			}
		}
	}
	os.MkdirAll(*outDir, 0o755)
	preFile := filepath.Join(*outDir, "pre_overlay.json")
	pb, _ := json.Marshal(struct{ Replace map[string]string }{pre})
	os.WriteFile(preFile, pb, 0o644)
	args := []string{"list", "-overlay", preFile, "-export", "-deps", "-json=ImportPath,Dir,GoFiles,TestGoFiles,XTestGoFiles,Export,Standard,Module,ForTest"}
	if *withTest {
		args = append(args, "-test")
	}
	args = append(args, flag.Args()...)
	cmd := exec.Command("go", args...)
	cmd.Dir = *modDir
	cmd.Stderr = os.Stderr
	out, err := cmd.Output()
	if err != nil {
		fmt.Fprintln(os.Stderr, "rewrite: go list failed:", err)
		os.Exit(2)
	}
	dec := json.NewDecoder(bytes.NewReader(out))
	exports := map[string]string{}
	var targets []*listPkg
	seen := map[string]bool{}
	for {
		var p listPkg
		if err := dec.Decode(&p); err == io.EOF {
			break
		} else if err != nil {
			fmt.Fprintln(os.Stderr, "rewrite: bad go list output:", err)
			os.Exit(2)
		}
		ip := p.ImportPath
		if i := strings.Index(ip, " ["); i >= 0 {
			// test variant "pkg [pkg.test]": prefer its export data for pkg (it includes test-only symbols)
			base := ip[:i]
			if p.Export != "" && p.ForTest == base {
				exports[base] = p.Export
			}
			continue
		}
		if strings.HasSuffix(ip, ".test") {
			continue
		}
		if p.Export != "" {
			if _, ok := exports[ip]; !ok {
				exports[ip] = p.Export
			}
		}
		pp := p
		if isTarget(&pp) && !seen[ip] {
			seen[ip] = true
			targets = append(targets, &pp)
		}
	}
	fset := token.NewFileSet()
	imp := importer.ForCompiler(fset, "gc", func(path string) (io.ReadCloser, error) {
		f, ok := exports[path]
		if !ok {
			return nil, fmt.Errorf("no export data for %s", path)
		}
		return os.Open(f)
	})
	overlay := map[string]string{}
	total := stats{}
	perFile := map[string]stats{}
	h := sha256.New()
	for _, p := range targets {
		groups := [][]string{p.GoFiles}
		if *withTest && p.Module != nil && p.Module.Path == "github.com/ThreeDotsLabs/watermill" {
			groups = [][]string{append(append([]string{}, p.GoFiles...), p.TestGoFiles...), p.XTestGoFiles}
		}
		for gi, files := range groups {
			if len(files) == 0 {
				continue
			}
			r := &pkgRewriter{fset: fset, pkg: p, imp: imp, xtest: gi == 1}
			if p.ImportPath == "github.com/cenkalti/backoff/v3" {
				r.light = true
				r.only = map[string]bool{"exponential.go": true}
			}
			if err := r.run(files, overlay, perFile, h); err != nil {
				fmt.Fprintf(os.Stderr, "rewrite: %s: %v\n", p.ImportPath, err)
				os.Exit(2)
			}
		}
	}
	for k, v := range pre {
		if _, done := overlay[k]; !done {
			overlay[k] = v
		}
	}
	for _, s := range perFile {
		total.add(s)
	}
	ov := struct{ Replace map[string]string }{overlay}
	b, _ := json.MarshalIndent(ov, "", " ")
	if err := os.WriteFile(filepath.Join(*outDir, "overlay.json"), b, 0o644); err != nil {
		fmt.Fprintln(os.Stderr, err)
		os.Exit(2)
	}
	st := map[string]any{"packages": len(targets), "files": len(overlay), "constructs": total, "residual": 0,
		"source_sha256": fmt.Sprintf("%x", h.Sum(nil))}
	b, _ = json.MarshalIndent(st, "", " ")
	os.WriteFile(filepath.Join(*outDir, "rewrite_stats.json"), b, 0o644)
	lb, _ := json.Marshal(lineMaps)
	os.WriteFile(filepath.Join(*outDir, "linemap.json"), lb, 0o644)
	if *verbose {
		fmt.Println(string(b))
	}
}

type pkgRewriter struct {
	only   map[string]bool
	light  bool // only time.Now and math/rand.Float64 (module with -lang < go1.18: no generic shims)
	fset   *token.FileSet
	pkg    *listPkg
	imp    types.Importer
	info   *types.Info
	xtest  bool
	st     stats
	usedVS bool
	n      int
}

func (r *pkgRewriter) run(files []string, overlay map[string]string, perFile map[string]stats, h io.Writer) error {
	var asts []*ast.File
	var paths []string
	for _, f := range files {
		path := filepath.Join(r.pkg.Dir, f)
		from := path
		if alt, ok := preOverlay[path]; ok {
			from = alt
		}
		src, err := os.ReadFile(from)
		if err != nil {
			return err
		}
		h.Write([]byte(path))
		h.Write(src)
		af, err := parser.ParseFile(r.fset, path, src, parser.SkipObjectResolution)
		if err != nil {
			return err
		}
		asts = append(asts, af)
		paths = append(paths, path)
	}
	r.info = &types.Info{Types: map[ast.Expr]types.TypeAndValue{}, Uses: map[*ast.Ident]types.Object{}, Defs: map[*ast.Ident]types.Object{}}
	var terrs []string
	conf := types.Config{Importer: r.imp, Error: func(err error) { terrs = append(terrs, err.Error()) }}
	name := r.pkg.ImportPath
	if r.xtest {
		name += "_test"
	}
	conf.Check(name, r.fset, asts, r.info)
	if len(terrs) > 0 {
		return fmt.Errorf("type errors (tree does not compile?): %s", strings.Join(terrs[:min(len(terrs), 5)], "; "))
	}
	for i, af := range asts {
		if r.only != nil && !r.only[filepath.Base(paths[i])] {
			continue
		}
		r.st = stats{}
		r.usedVS = false
		r.rewriteFile(af)
		af.Comments = nil
		stripDocs(af)
		var buf bytes.Buffer
		cfg := printer.Config{Mode: printer.SourcePos | printer.TabIndent, Tabwidth: 8}
		if err := cfg.Fprint(&buf, r.fset, af); err != nil {
			return err
		}
		// The //line directives are NOT kept in the output: the go1.23 compiler gives a loop that follows a
		// //line directive Go 1.22 per-iteration variable semantics even in a go 1.21 module (probed), which
		// would change the meaning of closures capturing loop variables. They are turned into a line map
		// (rewritten line -> original file:line) that the runtime uses for traces.
		rel := strings.ReplaceAll(r.pkg.ImportPath, "/", "_")
		dst := filepath.Join(*outDir, rel, filepath.Base(paths[i]))
		stripped, lm := stripLineDirectives(buf.Bytes())
		buf.Reset()
		buf.Write(stripped)
		lineMaps[paths[i]] = lm // the compiler records the overlaid file under its original path
		// residual scan on the printed output
		if !r.light {
			if err := residual(paths[i], buf.Bytes()); err != nil {
				return err
			}
		}
		os.MkdirAll(filepath.Dir(dst), 0o755)
		if err := os.WriteFile(dst, buf.Bytes(), 0o644); err != nil {
			return err
		}
		overlay[paths[i]] = dst
		perFile[paths[i]] = r.st
	}
	return nil
}

// lineMaps: rewritten file -> (rewritten line -> "origfile:line")
var lineMaps = map[string]map[int]string{}

func stripLineDirectives(src []byte) ([]byte, map[int]string) {
	lm := map[int]string{}
	var out bytes.Buffer
	curFile, curLine := "", 0
	n := 0
	for _, l := range strings.SplitAfter(string(src), "\n") {
		t := strings.TrimSpace(l)
		if strings.HasPrefix(t, "//line ") {
			spec := strings.TrimPrefix(t, "//line ")
			if k := strings.LastIndex(spec, ":"); k > 0 {
				if v, err := strconv.Atoi(spec[k+1:]); err == nil {
					curFile, curLine = spec[:k], v
					continue
				}
			}
		}
		if l == "" {
			continue
		}
		n++
		if curFile != "" {
			lm[n] = curFile + ":" + strconv.Itoa(curLine)
			curLine++
		}
		out.WriteString(l)
	}
	return out.Bytes(), lm
}

func stripDocs(f *ast.File) {
	f.Doc = nil
	ast.Inspect(f, func(n ast.Node) bool {
		switch x := n.(type) {
		case *ast.GenDecl:
			x.Doc = nil
		case *ast.FuncDecl:
			x.Doc = nil
		case *ast.Field:
			x.Doc, x.Comment = nil, nil
		case *ast.TypeSpec:
			x.Doc, x.Comment = nil, nil
		case *ast.ValueSpec:
			x.Doc, x.Comment = nil, nil
		case *ast.ImportSpec:
			x.Doc, x.Comment = nil, nil
		}
		return true
	})
}

// residual fails if a construct the runtime must own is still present in the rewritten source.
func residual(path string, src []byte) error {
	fs := token.NewFileSet()
	f, err := parser.ParseFile(fs, path, src, parser.SkipObjectResolution)
	if err != nil {
		return fmt.Errorf("rewritten %s does not parse: %v", path, err)
	}
	imports := map[string]string{}
	for _, is := range f.Imports {
		p, _ := strconv.Unquote(is.Path.Value)
		n := filepath.Base(p)
		if is.Name != nil {
			n = is.Name.Name
		}
		imports[n] = p
	}
	var bad []string
	ast.Inspect(f, func(n ast.Node) bool {
		switch x := n.(type) {
		case *ast.GoStmt:
			bad = append(bad, "go statement")
		case *ast.SendStmt:
			bad = append(bad, "send statement")
		case *ast.SelectStmt:
			bad = append(bad, "select statement")
		case *ast.UnaryExpr:
			if x.Op == token.ARROW {
				bad = append(bad, "receive expression")
			}
		case *ast.SelectorExpr:
			if id, ok := x.X.(*ast.Ident); ok {
				switch imports[id.Name] {
				case "sync":
					if x.Sel.Name != "Pool" {
						bad = append(bad, "sync."+x.Sel.Name)
					}
				case "sync/atomic":
					bad = append(bad, "atomic."+x.Sel.Name)
				case "time":
					if timeNames[x.Sel.Name] {
						bad = append(bad, "time."+x.Sel.Name)
					}
				case "context":
					if ctxNames[x.Sel.Name] {
						bad = append(bad, "context."+x.Sel.Name)
					}
				}
			}
		}
		return true
	})
	if len(bad) > 0 {
		return fmt.Errorf("RESIDUAL constructs in %s after rewriting: %s", path, strings.Join(bad, ", "))
	}
	return nil
}

var timeNames = map[string]bool{"Now": true, "Since": true, "Until": true, "After": true, "Sleep": true, "NewTimer": true,
	"NewTicker": true, "AfterFunc": true, "Tick": true, "Timer": true, "Ticker": true}
var ctxNames = map[string]bool{"WithCancel": true, "WithTimeout": true, "WithDeadline": true, "WithCancelCause": true, "Cause": true,
	"AfterFunc": true, "WithTimeoutCause": true, "WithDeadlineCause": true, "WithoutCancel": true}
var ctxSupported = map[string]bool{"WithCancel": true, "WithTimeout": true, "WithDeadline": true, "WithCancelCause": true, "Cause": true, "WithoutCancel": true}
var syncNames = map[string]bool{"Mutex": true, "RWMutex": true, "WaitGroup": true, "Once": true, "Map": true, "Locker": true}

func (r *pkgRewriter) vs(name string) ast.Expr {
	r.usedVS = true
	return &ast.SelectorExpr{X: ast.NewIdent("vs"), Sel: ast.NewIdent(name)}
}

func (r *pkgRewriter) call(fn ast.Expr, args ...ast.Expr) *ast.CallExpr {
	return &ast.CallExpr{Fun: fn, Args: args}
}

func (r *pkgRewriter) fresh(prefix string) string {
	r.n++
	return fmt.Sprintf("_vs%s%d", prefix, r.n)
}

func (r *pkgRewriter) pkgOf(id *ast.Ident) string {
	if pn, ok := r.info.Uses[id].(*types.PkgName); ok {
		return pn.Imported().Path()
	}
	return ""
}

func (r *pkgRewriter) isBuiltin(e ast.Expr, name string) bool {
	id, ok := e.(*ast.Ident)
	if !ok || id.Name != name {
		return false
	}
	_, ok = r.info.Uses[id].(*types.Builtin)
	return ok
}

func (r *pkgRewriter) typeOf(e ast.Expr) types.Type {
	if tv, ok := r.info.Types[e]; ok {
		return tv.Type
	}
	if id, ok := e.(*ast.Ident); ok {
		if o := r.info.Uses[id]; o != nil {
			return o.Type()
		}
		if o := r.info.Defs[id]; o != nil {
			return o.Type()
		}
	}
	return nil
}

func isChan(t types.Type) bool {
	if t == nil {
		return false
	}
	_, ok := t.Underlying().(*types.Chan)
	return ok
}

func orderedMapKey(t types.Type) bool {
	if t == nil {
		return false
	}
	m, ok := t.Underlying().(*types.Map)
	if !ok {
		return false
	}
	b, ok := m.Key().Underlying().(*types.Basic)
	if !ok {
		return false
	}
	return b.Info()&(types.IsInteger|types.IsString|types.IsFloat) != 0
}

func (r *pkgRewriter) rewriteFile(f *ast.File) {
	isRootUUID := r.pkg.ImportPath == "github.com/ThreeDotsLabs/watermill" && !r.xtest
	for _, d := range f.Decls {
		fd, ok := d.(*ast.FuncDecl)
		if ok && isRootUUID && fd.Recv == nil && fd.Body != nil && (fd.Name.Name == "NewUUID" || fd.Name.Name == "NewShortUUID" || fd.Name.Name == "NewULID") {
			// deterministic identifiers inside executions
			guard := &ast.IfStmt{
				Cond: r.call(r.vs("Active")),
				Body: &ast.BlockStmt{List: []ast.Stmt{&ast.ReturnStmt{Results: []ast.Expr{r.call(r.vs("NextID"), &ast.BasicLit{Kind: token.STRING, Value: strconv.Quote(fd.Name.Name)})}}}},
			}
			fd.Body.List = append([]ast.Stmt{guard}, fd.Body.List...)
		}
	}
	r.rewriteNode(f)
	r.fixImports(f)
}

// rewriteNode rewrites everything below root (root itself must not need replacement).
func (r *pkgRewriter) rewriteNode(root ast.Node) {
	astutil.Apply(root, r.pre, r.post)
}

func (r *pkgRewriter) rewriteExpr(e ast.Expr) ast.Expr {
	if e == nil {
		return nil
	}
	h := &ast.ParenExpr{X: e}
	r.rewriteNode(h)
	return h.X
}

func (r *pkgRewriter) rewriteStmts(list []ast.Stmt) []ast.Stmt {
	b := &ast.BlockStmt{List: list}
	r.rewriteNode(b)
	return b.List
}

func (r *pkgRewriter) pre(c *astutil.Cursor) bool {
	if r.light {
		return true
	}
	switch n := c.Node().(type) {
	case *ast.SelectStmt:
		c.Replace(r.selectStmt(n))
		return false
	case *ast.RangeStmt:
		t := r.typeOf(n.X)
		if isChan(t) {
			c.Replace(r.rangeChan(n))
			return false
		}
		if _, labeled := c.Parent().(*ast.LabeledStmt); orderedMapKey(t) && n.Tok == token.DEFINE && !labeled {
			c.Replace(r.rangeMap(n))
			return false
		}
	case *ast.AssignStmt:
		if len(n.Lhs) == 2 && len(n.Rhs) == 1 {
			if u, ok := n.Rhs[0].(*ast.UnaryExpr); ok && u.Op == token.ARROW {
				r.st.Recv++
				n.Rhs[0] = r.call(r.vs("Recv2"), r.rewriteExpr(u.X))
				n.Lhs[0], n.Lhs[1] = r.rewriteExpr(n.Lhs[0]), r.rewriteExpr(n.Lhs[1])
				return false
			}
		}
	case *ast.ValueSpec:
		if len(n.Names) == 2 && len(n.Values) == 1 {
			if u, ok := n.Values[0].(*ast.UnaryExpr); ok && u.Op == token.ARROW {
				r.st.Recv++
				n.Values[0] = r.call(r.vs("Recv2"), r.rewriteExpr(u.X))
				return false
			}
		}
	case *ast.CallExpr:
		if len(n.Args) == 1 && r.isBuiltin(n.Fun, "close") {
			r.st.Close++
			c.Replace(r.call(r.vs("Close"), r.rewriteExpr(n.Args[0])))
			return false
		}
		if len(n.Args) == 1 && r.isBuiltin(n.Fun, "len") && isChan(r.typeOf(n.Args[0])) {
			r.st.Len++
			c.Replace(r.call(r.vs("Len"), r.rewriteExpr(n.Args[0])))
			return false
		}
		// shortuuid.New() -> vs.IDOr("su", shortuuid.New)
		if sel, ok := n.Fun.(*ast.SelectorExpr); ok && len(n.Args) == 0 {
			if id, ok := sel.X.(*ast.Ident); ok && sel.Sel.Name == "New" && r.pkgOf(id) == "github.com/lithammer/shortuuid/v3" {
				c.Replace(r.call(r.vs("IDOr"), &ast.BasicLit{Kind: token.STRING, Value: `"su"`}, sel))
				return false
			}
		}
	}
	return true
}

func (r *pkgRewriter) post(c *astutil.Cursor) bool {
	if r.light {
		if n, ok := c.Node().(*ast.SelectorExpr); ok {
			if id, ok := n.X.(*ast.Ident); ok {
				p := r.pkgOf(id)
				if p == "time" && n.Sel.Name == "Now" {
					r.st.Selector++
					c.Replace(r.vs("Now"))
				} else if p == "math/rand" && n.Sel.Name == "Float64" {
					r.st.Selector++
					c.Replace(r.vs("RandFloat64"))
				}
			}
		}
		return true
	}
	switch n := c.Node().(type) {
	case *ast.GoStmt:
		r.st.Go++
		c.Replace(r.goStmt(n))
	case *ast.SendStmt:
		r.st.Send++
		c.Replace(&ast.ExprStmt{X: r.call(r.call(r.vs("SendTo"), n.Chan), n.Value)})
	case *ast.UnaryExpr:
		if n.Op == token.ARROW {
			r.st.Recv++
			c.Replace(r.call(r.vs("Recv"), n.X))
		}
	case *ast.SelectorExpr:
		id, ok := n.X.(*ast.Ident)
		if !ok {
			return true
		}
		switch r.pkgOf(id) {
		case "sync":
			if syncNames[n.Sel.Name] {
				r.st.Selector++
				c.Replace(r.vs(n.Sel.Name))
			}
		case "sync/atomic":
			r.st.Selector++
			c.Replace(r.vs(n.Sel.Name))
		case "time":
			if timeNames[n.Sel.Name] {
				r.st.Selector++
				c.Replace(r.vs(n.Sel.Name))
			}
		case "context":
			if ctxSupported[n.Sel.Name] {
				r.st.Selector++
				c.Replace(r.vs(n.Sel.Name))
			}
		case "math/rand":
			if n.Sel.Name == "Float64" || n.Sel.Name == "Float32" {
				r.st.Selector++
				c.Replace(r.vs("Rand" + n.Sel.Name))
			}
		}
	}
	return true
}

func (r *pkgRewriter) isConst(e ast.Expr) bool {
	if tv, ok := r.info.Types[e]; ok {
		if tv.Value != nil || tv.IsNil() {
			return true
		}
	}
	switch x := e.(type) {
	case *ast.BasicLit:
		return true
	case *ast.Ident:
		return x.Name == "nil" || x.Name == "true" || x.Name == "false"
	}
	return false
}

// go f(a, b) -> vs.Go(func() func() { _f := f; _a0 := a; _a1 := b; return func() { _f(_a0, _a1) } }())
func (r *pkgRewriter) goStmt(n *ast.GoStmt) ast.Stmt {
	call := n.Call
	if fl, ok := call.Fun.(*ast.FuncLit); ok && len(call.Args) == 0 {
		return &ast.ExprStmt{X: r.call(r.vs("Go"), fl)}
	}
	var binds []ast.Stmt
	fn := r.fresh("f")
	binds = append(binds, &ast.AssignStmt{Lhs: []ast.Expr{ast.NewIdent(fn)}, Tok: token.DEFINE, Rhs: []ast.Expr{call.Fun}})
	var args []ast.Expr
	for _, a := range call.Args {
		if r.isConst(a) {
			args = append(args, a)
			continue
		}
		an := r.fresh("a")
		binds = append(binds, &ast.AssignStmt{Lhs: []ast.Expr{ast.NewIdent(an)}, Tok: token.DEFINE, Rhs: []ast.Expr{a}})
		args = append(args, ast.NewIdent(an))
	}
	inner := &ast.FuncLit{Type: &ast.FuncType{Params: &ast.FieldList{}},
		Body: &ast.BlockStmt{List: []ast.Stmt{&ast.ExprStmt{X: &ast.CallExpr{Fun: ast.NewIdent(fn), Args: args, Ellipsis: call.Ellipsis}}}}}
	binds = append(binds, &ast.ReturnStmt{Results: []ast.Expr{inner}})
	outer := &ast.FuncLit{
		Type: &ast.FuncType{Params: &ast.FieldList{}, Results: &ast.FieldList{List: []*ast.Field{{Type: &ast.FuncType{Params: &ast.FieldList{}}}}}},
		Body: &ast.BlockStmt{List: binds},
	}
	return &ast.ExprStmt{X: r.call(r.vs("Go"), r.call(outer))}
}

// select -> switch _c0, _c1 := vs.RecvCase(a), vs.SendCaseOf(b).With(v); vs.Select(hasDefault, _c0, _c1) { case 0: ... }
func (r *pkgRewriter) selectStmt(n *ast.SelectStmt) ast.Stmt {
	r.st.Select++
	var names, descs []ast.Expr
	var clauses []ast.Stmt
	hasDefault := false
	idx := 0
	for _, s := range n.Body.List {
		cc := s.(*ast.CommClause)
		body := r.rewriteStmts(cc.Body)
		if cc.Comm == nil {
			hasDefault = true
			clauses = append(clauses, &ast.CaseClause{List: nil, Body: body})
			continue
		}
		name := r.fresh("c")
		var desc ast.Expr
		var pre []ast.Stmt
		switch cm := cc.Comm.(type) {
		case *ast.SendStmt:
			desc = r.call(&ast.SelectorExpr{X: r.call(r.vs("SendCaseOf"), r.rewriteExpr(cm.Chan)), Sel: ast.NewIdent("With")}, r.rewriteExpr(cm.Value))
		case *ast.ExprStmt:
			u := unparen(cm.X).(*ast.UnaryExpr)
			desc = r.call(r.vs("RecvCase"), r.rewriteExpr(u.X))
		case *ast.AssignStmt:
			u := unparen(cm.Rhs[0]).(*ast.UnaryExpr)
			desc = r.call(r.vs("RecvCase"), r.rewriteExpr(u.X))
			var lhs []ast.Expr
			for _, l := range cm.Lhs {
				lhs = append(lhs, r.rewriteExpr(l))
			}
			meth := "Val"
			if len(lhs) == 2 {
				meth = "Get"
			}
			pre = append(pre, &ast.AssignStmt{Lhs: lhs, Tok: cm.Tok, Rhs: []ast.Expr{r.call(&ast.SelectorExpr{X: ast.NewIdent(name), Sel: ast.NewIdent(meth)})}})
			if cm.Tok == token.DEFINE {
				// keep "declared and not used" away for variables the body does not touch
				for _, l := range lhs {
					if id, ok := l.(*ast.Ident); ok && id.Name != "_" {
						pre = append(pre, &ast.AssignStmt{Lhs: []ast.Expr{ast.NewIdent("_")}, Tok: token.ASSIGN, Rhs: []ast.Expr{ast.NewIdent(id.Name)}})
					}
				}
			}
		default:
			panic(fmt.Sprintf("unsupported comm clause %T", cc.Comm))
		}
		names = append(names, ast.NewIdent(name))
		descs = append(descs, desc)
		clauses = append(clauses, &ast.CaseClause{List: []ast.Expr{&ast.BasicLit{Kind: token.INT, Value: strconv.Itoa(idx)}}, Body: append(pre, body...)})
		idx++
	}
	def := "false"
	if hasDefault {
		def = "true"
	} else {
		// keeps the statement "terminating" exactly when the select was, and catches impossible answers
		clauses = append(clauses, &ast.CaseClause{List: nil, Body: []ast.Stmt{&ast.ExprStmt{X: r.call(ast.NewIdent("panic"), &ast.BasicLit{Kind: token.STRING, Value: `"vs: select returned no case"`})}}})
	}
	args := append([]ast.Expr{ast.NewIdent(def)}, names...)
	sw := &ast.SwitchStmt{Tag: r.call(r.vs("Select"), args...), Body: &ast.BlockStmt{List: clauses}}
	if len(names) > 0 {
		sw.Init = &ast.AssignStmt{Lhs: names, Tok: token.DEFINE, Rhs: descs}
	}
	return sw
}

func unparen(e ast.Expr) ast.Expr {
	for {
		p, ok := e.(*ast.ParenExpr)
		if !ok {
			return e
		}
		e = p.X
	}
}

// for x := range ch {B} -> for _ch := ch; ; { x, _ok := vs.Recv2(_ch); if !_ok { break }; B }
func (r *pkgRewriter) rangeChan(n *ast.RangeStmt) ast.Stmt {
	r.st.RangeChan++
	chv := r.fresh("r")
	okv := r.fresh("ok")
	body := r.rewriteStmts(n.Body.List)
	recv := r.call(r.vs("Recv2"), ast.NewIdent(chv))
	brk := &ast.IfStmt{Cond: &ast.UnaryExpr{Op: token.NOT, X: ast.NewIdent(okv)}, Body: &ast.BlockStmt{List: []ast.Stmt{&ast.BranchStmt{Tok: token.BREAK}}}}
	chExpr := r.rewriteExpr(n.X)
	if id, ok := n.Key.(*ast.Ident); ok && id.Name != "_" && n.Tok == token.DEFINE {
		// The loop variable is declared ONCE per loop, in the for-init (Go <= 1.21 semantics of `range`, which is
		// what the watermill module is compiled with; with go >= 1.22 the for-init variable is per-iteration,
		// again like `range`), so a closure capturing it behaves as in the original:
		//   for _r, x := vs.ChanAndZero(ch); ; { var _ok bool; x, _ok = vs.Recv2(_r); if !_ok { break }; {B} }
		return &ast.ForStmt{
			Init: &ast.AssignStmt{Lhs: []ast.Expr{ast.NewIdent(chv), ast.NewIdent(id.Name)}, Tok: token.DEFINE, Rhs: []ast.Expr{r.call(r.vs("ChanAndZero"), chExpr)}},
			Body: &ast.BlockStmt{List: []ast.Stmt{
				&ast.DeclStmt{Decl: &ast.GenDecl{Tok: token.VAR, Specs: []ast.Spec{&ast.ValueSpec{Names: []*ast.Ident{ast.NewIdent(okv)}, Type: ast.NewIdent("bool")}}}},
				&ast.AssignStmt{Lhs: []ast.Expr{ast.NewIdent(id.Name), ast.NewIdent(okv)}, Tok: token.ASSIGN, Rhs: []ast.Expr{recv}},
				brk,
				&ast.AssignStmt{Lhs: []ast.Expr{ast.NewIdent("_")}, Tok: token.ASSIGN, Rhs: []ast.Expr{ast.NewIdent(id.Name)}},
				&ast.BlockStmt{List: body},
			}},
		}
	}
	var head []ast.Stmt
	if n.Key == nil || n.Tok == token.DEFINE {
		head = append(head, &ast.AssignStmt{Lhs: []ast.Expr{ast.NewIdent("_"), ast.NewIdent(okv)}, Tok: token.DEFINE, Rhs: []ast.Expr{recv}}, brk)
	} else {
		tmp := r.fresh("v")
		head = append(head, &ast.AssignStmt{Lhs: []ast.Expr{ast.NewIdent(tmp), ast.NewIdent(okv)}, Tok: token.DEFINE, Rhs: []ast.Expr{recv}}, brk,
			&ast.AssignStmt{Lhs: []ast.Expr{r.rewriteExpr(n.Key)}, Tok: token.ASSIGN, Rhs: []ast.Expr{ast.NewIdent(tmp)}})
	}
	return &ast.ForStmt{
		Init: &ast.AssignStmt{Lhs: []ast.Expr{ast.NewIdent(chv)}, Tok: token.DEFINE, Rhs: []ast.Expr{chExpr}},
		Body: &ast.BlockStmt{List: append(head, &ast.BlockStmt{List: body})},
	}
}

// for k, v := range m {B} -> for _m := m; _, k := range vs.SortedKeys(_m) { v, _ok := _m[k]; if !_ok {continue}; B }
// (deterministic iteration order; entries deleted during the loop are skipped, as in Go)
func (r *pkgRewriter) rangeMap(n *ast.RangeStmt) ast.Stmt {
	r.st.RangeMap++
	body := r.rewriteStmts(n.Body.List)
	mexpr := r.rewriteExpr(n.X)
	// the map expression is evaluated once, into a variable declared by an enclosing one-iteration construct
	mv := r.fresh("m")
	okv := r.fresh("ok")
	var key ast.Expr = n.Key
	if id, ok := n.Key.(*ast.Ident); !ok || id.Name == "_" {
		key = ast.NewIdent(r.fresh("k"))
	}
	var head []ast.Stmt
	var val ast.Expr = ast.NewIdent("_")
	if n.Value != nil {
		val = n.Value
	}
	head = append(head,
		&ast.AssignStmt{Lhs: []ast.Expr{val, ast.NewIdent(okv)}, Tok: token.DEFINE, Rhs: []ast.Expr{&ast.IndexExpr{X: ast.NewIdent(mv), Index: key}}},
		&ast.IfStmt{Cond: &ast.UnaryExpr{Op: token.NOT, X: ast.NewIdent(okv)}, Body: &ast.BlockStmt{List: []ast.Stmt{&ast.BranchStmt{Tok: token.CONTINUE}}}})
	if id, ok := n.Key.(*ast.Ident); ok && id.Name != "_" {
		head = append(head, &ast.AssignStmt{Lhs: []ast.Expr{ast.NewIdent("_")}, Tok: token.ASSIGN, Rhs: []ast.Expr{ast.NewIdent(id.Name)}})
	}
	if id, ok := val.(*ast.Ident); ok && id.Name != "_" {
		head = append(head, &ast.AssignStmt{Lhs: []ast.Expr{ast.NewIdent("_")}, Tok: token.ASSIGN, Rhs: []ast.Expr{ast.NewIdent(id.Name)}})
	}
	// vs.SortedKeys returns the keys and smuggles nothing else; the map is bound through a func literal call
	inner := &ast.RangeStmt{Key: ast.NewIdent("_"), Value: key, Tok: token.DEFINE,
		X:    r.call(r.vs("SortedKeys"), ast.NewIdent(mv)),
		Body: &ast.BlockStmt{List: append(head, &ast.BlockStmt{List: body})}}
	// `for _, k := range keys` cannot declare _m; wrap: switch _m := m; { default: for ... } keeps break/continue semantics? no:
	// use an if-statement with init, which does not capture break/continue.
	return &ast.IfStmt{Init: &ast.AssignStmt{Lhs: []ast.Expr{ast.NewIdent(mv)}, Tok: token.DEFINE, Rhs: []ast.Expr{mexpr}},
		Cond: ast.NewIdent("true"), Body: &ast.BlockStmt{List: []ast.Stmt{inner}}}
}

func (r *pkgRewriter) fixImports(f *ast.File) {
	// which import names are still used?
	used := map[string]bool{}
	ast.Inspect(f, func(n ast.Node) bool {
		if se, ok := n.(*ast.SelectorExpr); ok {
			if id, ok := se.X.(*ast.Ident); ok {
				used[id.Name] = true
			}
		}
		return true
	})
	for _, gd := range f.Decls {
		g, ok := gd.(*ast.GenDecl)
		if !ok || g.Tok != token.IMPORT {
			continue
		}
		var keep []ast.Spec
		for _, s := range g.Specs {
			is := s.(*ast.ImportSpec)
			p, _ := strconv.Unquote(is.Path.Value)
			switch p {
			case "sync", "sync/atomic", "time", "context", "math/rand":
				name := filepath.Base(p)
				if is.Name != nil {
					name = is.Name.Name
				}
				if name != "_" && name != "." && !used[name] {
					continue
				}
			}
			keep = append(keep, s)
		}
		g.Specs = keep
	}
	// drop empty import decls
	var decls []ast.Decl
	for _, d := range f.Decls {
		if g, ok := d.(*ast.GenDecl); ok && g.Tok == token.IMPORT && len(g.Specs) == 0 {
			continue
		}
		decls = append(decls, d)
	}
	f.Decls = decls
	hasVS := false
	for _, gd := range f.Decls {
		if g, ok := gd.(*ast.GenDecl); ok && g.Tok == token.IMPORT {
			for _, sp := range g.Specs {
				if p, _ := strconv.Unquote(sp.(*ast.ImportSpec).Path.Value); p == vsPath {
					hasVS = true
				}
			}
		}
	}
	if r.usedVS && !hasVS {
		imp := &ast.GenDecl{Tok: token.IMPORT, Specs: []ast.Spec{&ast.ImportSpec{Name: ast.NewIdent("vs"), Path: &ast.BasicLit{Kind: token.STRING, Value: strconv.Quote(vsPath)}}}}
		f.Decls = append([]ast.Decl{imp}, f.Decls...)
	}
	f.Imports = nil
}

func min(a, b int) int {
	if a < b {
		return a
	}
	return b
}

var _ = sort.Strings
