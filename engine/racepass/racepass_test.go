// Package racepass holds the free-running counterpart of the model-checking harnesses: small native
// (not rewritten) stress programs over the real library, built with -race. The controlled scheduler
// only switches goroutines at visible operations and its hand-offs are happens-before edges, so
// unsynchronised plain-memory accesses are invisible to it; the data-race-freedom it assumes between
// visible operations is checked here. Supplementary by construction (free-running executions are a
// sample): a reported race is a real one, silence proves nothing, and no property is decided here.
package racepass

import (
	"context"
	"crypto/rand"
	"fmt"
	"sync"
	"sync/atomic"
	"testing"
	"time"

	"github.com/ThreeDotsLabs/watermill"
	"github.com/ThreeDotsLabs/watermill/message"
	"github.com/ThreeDotsLabs/watermill/message/router/middleware"
	"github.com/ThreeDotsLabs/watermill/pubsub/gochannel"
)

// waitOrGiveUp waits for the group; a timeout is only logged: liveness is the model checker's business.
func waitOrGiveUp(t *testing.T, wg *sync.WaitGroup, what string) {
	done := make(chan struct{})
	go func() { wg.Wait(); close(done) }()
	select {
	case <-done:
	case <-time.After(20 * time.Second):
		t.Logf("racepass: gave up waiting for %s", what)
	}
}

var iterations int64

func report(t *testing.T) { t.Logf("racepass-iterations=%d", atomic.LoadInt64(&iterations)) }

// ---- message.Message: concurrent Ack / Nack / Copy / channel reads (C03) ---------------------------------------

func TestRaceC03(t *testing.T) {
	defer report(t)
	for round := 0; round < 1000; round++ {
		atomic.AddInt64(&iterations, 1)
		m := message.NewMessage(watermill.NewUUID(), []byte("p"))
		m.Metadata.Set("k", "v")
		zero := round%3 == 2
		if zero {
			// a message built without the constructor: its first Ack / Nack calls arrive together
			m = &message.Message{}
		}
		var acks, nacks int32
		var wg sync.WaitGroup
		for g := 0; g < 6; g++ {
			g := g
			if zero && g%3 == 2 {
				g = g % 2
			}
			wg.Add(1)
			go func() {
				defer wg.Done()
				switch g % 3 {
				case 0:
					if m.Ack() {
						atomic.AddInt32(&acks, 1)
					}
				case 1:
					if m.Nack() {
						atomic.AddInt32(&nacks, 1)
					}
				default:
					select {
					case <-m.Acked():
					case <-m.Nacked():
					}
					_ = m.Copy()
				}
			}()
		}
		waitOrGiveUp(t, &wg, "Ack/Nack callers")
		if (acks > 0) == (nacks > 0) {
			t.Errorf("round %d: %d successful Ack and %d successful Nack calls on one message", round, acks, nacks)
		}
	}
}

// ---- GoChannel: publish / subscribe / redelivery / cancel / late subscribe / close (C04 C05 C07 C11) ---------------

func goChannelRound(t *testing.T, cfg gochannel.Config, round int) {
	atomic.AddInt64(&iterations, 1)
	g := gochannel.NewGoChannel(cfg, watermill.NopLogger{})
	if cfg.Persistent {
		_ = g.Publish("t", message.NewMessage("old", []byte("backlog")))
	}
	var wg sync.WaitGroup
	consume := func(ctx context.Context, nackFirst bool) {
		ch, err := g.Subscribe(ctx, "t")
		if err != nil {
			return
		}
		wg.Add(1)
		go func() {
			defer wg.Done()
			seen := map[string]bool{}
			for m := range ch {
				_ = m.Metadata.Get("k")
				_ = string(m.Payload)
				if nackFirst && !seen[m.UUID] {
					seen[m.UUID] = true
					m.Nack()
					continue
				}
				m.Ack()
			}
		}()
	}
	ctx1, cancel1 := context.WithCancel(context.Background())
	defer cancel1()
	consume(ctx1, false)
	consume(context.Background(), true)
	for p := 0; p < 2; p++ {
		p := p
		wg.Add(1)
		go func() {
			defer wg.Done()
			for i := 0; i < 3; i++ {
				m := message.NewMessage(fmt.Sprintf("r%d-p%d-m%d", round, p, i), []byte("payload"))
				m.Metadata.Set("k", "v")
				if i == 2 {
					// a batch
					_ = g.Publish("t", m, message.NewMessage(m.UUID+"b", []byte("payload")))
				} else {
					_ = g.Publish("t", m)
				}
				// the value is the publisher's again
				m.Metadata.Set("k", "recycled")
				m.Payload = []byte("recycled")
			}
		}()
	}
	// traffic and subscription churn on a second topic at the same time
	wg.Add(2)
	go func() {
		defer wg.Done()
		for i := 0; i < 3; i++ {
			_ = g.Publish("u", message.NewMessage(fmt.Sprintf("r%d-u%d", round, i), []byte("other topic")))
		}
	}()
	go func() {
		defer wg.Done()
		ctx, cancel := context.WithCancel(context.Background())
		if ch, err := g.Subscribe(ctx, "u"); err == nil {
			go func() {
				for m := range ch {
					m.Ack()
				}
			}()
		}
		cancel()
	}()
	wg.Add(3)
	go func() { defer wg.Done(); cancel1() }()
	go func() { defer wg.Done(); consume(context.Background(), false) }()
	go func() {
		defer wg.Done()
		if round%2 == 0 {
			time.Sleep(time.Duration(round%5) * 100 * time.Microsecond)
		}
		_ = g.Close()
	}()
	waitOrGiveUp(t, &wg, fmt.Sprintf("GoChannel round (cfg %+v)", cfg))
	_ = g.Close()
}

func goChannelRounds(t *testing.T, n int) {
	defer report(t)
	for _, cfg := range []gochannel.Config{
		{}, {OutputChannelBuffer: 1}, {Persistent: true}, {BlockPublishUntilSubscriberAck: true},
		{Persistent: true, BlockPublishUntilSubscriberAck: true}, {Persistent: true, OutputChannelBuffer: 2},
	} {
		for round := 0; round < n; round++ {
			goChannelRound(t, cfg, round)
		}
	}
}

func TestRaceC04(t *testing.T) { goChannelRounds(t, 60) }
func TestRaceC05(t *testing.T) { goChannelRounds(t, 60) }
func TestRaceC07(t *testing.T) { goChannelRounds(t, 60) }
func TestRaceC11(t *testing.T) { goChannelRounds(t, 60) }

// ---- Deduplicator: concurrent arrivals at one middleware / decorator, both built-in hashers (C14) -------------------

type countingPublisher struct{ n map[string]*int32 }

func (p countingPublisher) Publish(topic string, ms ...*message.Message) error {
	for _, m := range ms {
		atomic.AddInt32(p.n[string(m.Payload[:8])], 1)
	}
	return nil
}
func (p countingPublisher) Close() error { return nil }

func TestRaceC14(t *testing.T) {
	defer report(t)
	raceC14Window(t)
	hashers := map[string]func() middleware.MessageHasher{
		"default": func() middleware.MessageHasher { return nil },
		"adler32": func() middleware.MessageHasher { return middleware.NewMessageHasherAdler32(1 << 16) },
		"sha256":  func() middleware.MessageHasher { return middleware.NewMessageHasherSHA256(1 << 16) },
	}
	for name, mk := range hashers {
		for _, decorator := range []bool{false, true} {
			for round := 0; round < 40; round++ {
				atomic.AddInt64(&iterations, 1)
				d := &middleware.Deduplicator{KeyFactory: mk(), Timeout: time.Second}
				// K distinct random payloads (the first 8 bytes identify them), G arrivals each
				const K, G = 3, 6
				payloads := make([][]byte, K)
				counts := map[string]*int32{}
				for k := range payloads {
					payloads[k] = make([]byte, 4096)
					_, _ = rand.Read(payloads[k])
					copy(payloads[k], fmt.Sprintf("key-%04d", k))
					counts[string(payloads[k][:8])] = new(int32)
				}
				h := d.Middleware(func(m *message.Message) ([]*message.Message, error) {
					atomic.AddInt32(counts[string(m.Payload[:8])], 1)
					return nil, nil
				})
				pub, err := d.PublisherDecorator()(countingPublisher{counts})
				if err != nil {
					t.Fatal(err)
				}
				start := make(chan struct{})
				var wg sync.WaitGroup
				for i := 0; i < K*G; i++ {
					i := i
					wg.Add(1)
					go func() {
						defer wg.Done()
						m := message.NewMessage(fmt.Sprintf("u%d", i), payloads[i%K])
						<-start
						if decorator {
							_ = pub.Publish("t", m)
						} else {
							_, _ = h(m)
						}
					}()
				}
				close(start)
				waitOrGiveUp(t, &wg, "deduplicated arrivals")
				for k, c := range counts {
					if n := atomic.LoadInt32(c); n != 1 {
						t.Errorf("hasher %s, decorator=%v, round %d: key %q got through %d times out of %d concurrent arrivals", name, decorator, round, k, n, G)
					}
				}
			}
		}
	}
}

// arrivals spread over several clean-up ticks of a very short window (only the race detector judges this one)
func raceC14Window(t *testing.T) {
	for round := 0; round < 10; round++ {
		atomic.AddInt64(&iterations, 1)
		kr, err := middleware.NewMapExpiringKeyRepository(2 * time.Millisecond)
		if err != nil {
			t.Fatal(err)
		}
		d := &middleware.Deduplicator{Repository: kr, Timeout: time.Second}
		h := d.Middleware(func(m *message.Message) ([]*message.Message, error) { return nil, nil })
		var wg sync.WaitGroup
		for g := 0; g < 4; g++ {
			g := g
			wg.Add(1)
			go func() {
				defer wg.Done()
				for i := 0; i < 40; i++ {
					_, _ = h(message.NewMessage("u", []byte(fmt.Sprintf("payload-%d", (g+i)%5))))
					time.Sleep(100 * time.Microsecond)
				}
			}()
		}
		waitOrGiveUp(t, &wg, "arrivals across clean-up ticks")
	}
}

// ---- Router: handlers, middlewares, publish during Close, handler added to the running router (C02 C06 C10) --------

func routerRound(t *testing.T, round int) {
	atomic.AddInt64(&iterations, 1)
	g := gochannel.NewGoChannel(gochannel.Config{OutputChannelBuffer: 4}, watermill.NopLogger{})
	r, err := message.NewRouter(message.RouterConfig{CloseTimeout: 5 * time.Second}, watermill.NopLogger{})
	if err != nil {
		t.Fatal(err)
	}
	r.AddMiddleware(middleware.Recoverer, middleware.CorrelationID)
	var handled int32
	h := func(m *message.Message) ([]*message.Message, error) {
		n := atomic.AddInt32(&handled, 1)
		switch n % 4 {
		case 1:
			return nil, fmt.Errorf("failure %d", n)
		case 2:
			panic("handler panic")
		}
		return message.Messages{message.NewMessage(watermill.NewUUID(), m.Payload)}, nil
	}
	r.AddHandler("a", "in", g, "mid", g, h)
	r.AddNoPublisherHandler("sink", "mid", g, func(m *message.Message) error { return nil })
	ctx, cancel := context.WithCancel(context.Background())
	defer cancel()
	var wg sync.WaitGroup
	wg.Add(1)
	go func() { defer wg.Done(); _ = r.Run(ctx) }()
	select {
	case <-r.Running():
	case <-time.After(10 * time.Second):
		t.Log("racepass: router did not start")
		return
	}
	// a handler is added to the running router and started (not concurrently with the shutdown: the API does
	// not allow that)
	hb := r.AddHandler("b", "in", g, "mid", g, h)
	if err := r.RunHandlers(ctx); err != nil {
		t.Error(err)
	}
	select {
	case <-hb.Started():
	case <-time.After(5 * time.Second):
		t.Log("racepass: late handler did not start")
	}
	wg.Add(3)
	go func() {
		defer wg.Done()
		for i := 0; i < 4; i++ {
			_ = g.Publish("in", message.NewMessage(watermill.NewUUID(), []byte("x")))
		}
	}()
	go func() {
		defer wg.Done()
		if round%3 == 0 {
			hb.Stop()
		}
	}()
	go func() {
		defer wg.Done()
		time.Sleep(time.Duration(round%4) * 200 * time.Microsecond)
		if round%2 == 0 {
			_ = r.Close()
		} else {
			cancel()
		}
	}()
	waitOrGiveUp(t, &wg, "router round")
	_ = r.Close()
	_ = g.Close()
}

func routerRounds(t *testing.T, n int) {
	defer report(t)
	for round := 0; round < n; round++ {
		routerRound(t, round)
	}
}

func TestRaceC02(t *testing.T) { routerRounds(t, 80) }
func TestRaceC06(t *testing.T) { routerRounds(t, 80) }
func TestRaceC10(t *testing.T) { routerRounds(t, 80) }
