package racepass

import (
	"context"
	"errors"
	"fmt"
	"sync"
	"sync/atomic"
	"testing"
	"time"

	"github.com/prometheus/client_golang/prometheus"
	"github.com/sony/gobreaker"

	"github.com/ThreeDotsLabs/watermill"
	"github.com/ThreeDotsLabs/watermill/components/cqrs"
	"github.com/ThreeDotsLabs/watermill/components/forwarder"
	"github.com/ThreeDotsLabs/watermill/components/metrics"
	"github.com/ThreeDotsLabs/watermill/components/requestreply"
	"github.com/ThreeDotsLabs/watermill/message"
	"github.com/ThreeDotsLabs/watermill/message/router/middleware"
	"github.com/ThreeDotsLabs/watermill/pubsub/gochannel"
)

// The router rounds also stand for the properties that are about what a Router does with its handlers.
func TestRaceC01(t *testing.T) { routerRounds(t, 60) }
func TestRaceC08(t *testing.T) { routerRounds(t, 60) }
func TestRaceC09(t *testing.T) {
	routerRounds(t, 60)
	// middlewares registered from several goroutines at once (the registration is lock-protected for that):
	// none is lost
	for round := 0; round < 30; round++ {
		atomic.AddInt64(&iterations, 1)
		g := gochannel.NewGoChannel(gochannel.Config{OutputChannelBuffer: 4}, watermill.NopLogger{})
		r, _ := message.NewRouter(message.RouterConfig{CloseTimeout: 5 * time.Second}, watermill.NopLogger{})
		var ran [2]int32
		hs := []*message.Handler{
			r.AddNoPublisherHandler("a", "ta", g, func(*message.Message) error { return nil }),
			r.AddNoPublisherHandler("b", "tb", g, func(*message.Message) error { return nil }),
		}
		parallel(t, 4, "middleware registrations", func(i int) {
			k := i % 2
			for j := 0; j < 10; j++ {
				hs[k].AddMiddleware(func(next message.HandlerFunc) message.HandlerFunc {
					return func(m *message.Message) ([]*message.Message, error) {
						atomic.AddInt32(&ran[k], 1)
						return next(m)
					}
				})
			}
		})
		var wg sync.WaitGroup
		wg.Add(1)
		go func() { defer wg.Done(); _ = r.Run(context.Background()) }()
		select {
		case <-r.Running():
		case <-time.After(10 * time.Second):
			t.Log("racepass: router did not start")
			continue
		}
		_ = g.Publish("ta", message.NewMessage("1", nil))
		_ = g.Publish("tb", message.NewMessage("2", nil))
		for i := 0; i < 300 && (atomic.LoadInt32(&ran[0]) < 20 || atomic.LoadInt32(&ran[1]) < 20); i++ {
			time.Sleep(time.Millisecond)
		}
		if a, b := atomic.LoadInt32(&ran[0]), atomic.LoadInt32(&ran[1]); a != 20 || b != 20 {
			t.Errorf("round %d: 20 middlewares were registered on each handler (from two goroutines each), %d and %d ran", round, a, b)
		}
		_ = r.Close()
		waitOrGiveUp(t, &wg, "router")
		_ = g.Close()
	}
}

// parallel calls f from n goroutines released together.
func parallel(t *testing.T, n int, what string, f func(i int)) {
	start := make(chan struct{})
	var wg sync.WaitGroup
	for i := 0; i < n; i++ {
		i := i
		wg.Add(1)
		go func() { defer wg.Done(); <-start; f(i) }()
	}
	close(start)
	waitOrGiveUp(t, &wg, what)
}

var errFlaky = errors.New("flaky")

// ---- middlewares shared by concurrent deliveries (C12 C13 C19) -------------------------------------------------------

func TestRaceC12(t *testing.T) {
	defer report(t)
	for round := 0; round < 60; round++ {
		atomic.AddInt64(&iterations, 1)
		var hooks int32
		r := middleware.Retry{MaxRetries: 3, InitialInterval: 50 * time.Microsecond, MaxInterval: time.Millisecond, Multiplier: 2,
			RandomizationFactor: 0.5, OnRetryHook: func(int, time.Duration) { atomic.AddInt32(&hooks, 1) }, Logger: watermill.NopLogger{}}
		var calls int32
		h := r.Middleware(func(m *message.Message) ([]*message.Message, error) {
			if atomic.AddInt32(&calls, 1)%3 != 0 {
				return nil, errFlaky
			}
			return message.Messages{message.NewMessage(watermill.NewUUID(), m.Payload)}, nil
		})
		parallel(t, 4, "retried messages", func(i int) { _, _ = h(message.NewMessage(fmt.Sprint(i), []byte("x"))) })
	}
}

func TestRaceC13(t *testing.T) {
	defer report(t)
	for round := 0; round < 100; round++ {
		atomic.AddInt64(&iterations, 1)
		g := gochannel.NewGoChannel(gochannel.Config{}, watermill.NopLogger{})
		mw, err := middleware.PoisonQueueWithFilter(g, "poison", func(err error) bool { return errors.Is(err, errFlaky) })
		if err != nil {
			t.Fatal(err)
		}
		h := mw(func(m *message.Message) ([]*message.Message, error) {
			if m.UUID[0]%2 == 0 {
				return nil, fmt.Errorf("wrapped: %w", errFlaky)
			}
			return nil, errors.New("other")
		})
		parallel(t, 4, "poisoned messages", func(i int) {
			m := message.NewMessage(fmt.Sprint(i), []byte("x"))
			m.Metadata.Set("k", "v")
			_, _ = h(m)
		})
		_ = g.Close()
	}
}

func TestRaceC19(t *testing.T) {
	defer report(t)
	for round := 0; round < 40; round++ {
		atomic.AddInt64(&iterations, 1)
		th := middleware.NewThrottle(1000, 10*time.Millisecond)
		cb := middleware.NewCircuitBreaker(gobreaker.Settings{Name: "cb"})
		de := &middleware.DelayOnError{InitialInterval: time.Second, MaxInterval: time.Hour, Multiplier: 1.5}
		ie := middleware.NewIgnoreErrors([]error{errFlaky})
		var h message.HandlerFunc = func(m *message.Message) ([]*message.Message, error) {
			if m.UUID == "1" {
				return nil, errFlaky
			}
			if m.UUID == "2" {
				panic("boom")
			}
			o := message.NewMessage(watermill.NewUUID(), m.Payload)
			return message.Messages{o}, nil
		}
		for _, mw := range []message.HandlerMiddleware{middleware.Timeout(time.Second), middleware.CorrelationID, cb.Middleware, de.Middleware, th.Middleware, ie.Middleware, middleware.InstantAck, middleware.Recoverer} {
			h = mw(h)
		}
		parallel(t, 4, "middleware chain", func(i int) {
			m := message.NewMessage(fmt.Sprint(i), []byte("x"))
			middleware.SetCorrelationID("c", m)
			_, _ = h(m)
		})
	}
}

// ---- CQRS over a router (C15), request-reply (C18), forwarder (C17), metrics decorators (C20) ---------------------------

type rpCmd struct{ ID string }
type rpEvt struct{ ID string }
type rpRes struct{ ID string }

func TestRaceC15(t *testing.T) {
	defer report(t)
	for round := 0; round < 25; round++ {
		atomic.AddInt64(&iterations, 1)
		logger := watermill.NopLogger{}
		g := gochannel.NewGoChannel(gochannel.Config{}, logger)
		r, _ := message.NewRouter(message.RouterConfig{CloseTimeout: 5 * time.Second}, logger)
		m := cqrs.JSONMarshaler{GenerateName: cqrs.StructName}
		cb, err := cqrs.NewCommandBusWithConfig(g, cqrs.CommandBusConfig{GeneratePublishTopic: func(cqrs.CommandBusGeneratePublishTopicParams) (string, error) { return "cmd", nil }, Marshaler: m, Logger: logger})
		if err != nil {
			t.Fatal(err)
		}
		eb, _ := cqrs.NewEventBusWithConfig(g, cqrs.EventBusConfig{GeneratePublishTopic: func(cqrs.GenerateEventPublishTopicParams) (string, error) { return "evt", nil }, Marshaler: m, Logger: logger})
		cp, _ := cqrs.NewCommandProcessorWithConfig(r, cqrs.CommandProcessorConfig{
			GenerateSubscribeTopic: func(cqrs.CommandProcessorGenerateSubscribeTopicParams) (string, error) { return "cmd", nil },
			SubscriberConstructor:  func(cqrs.CommandProcessorSubscriberConstructorParams) (message.Subscriber, error) { return g, nil },
			Marshaler:              m, Logger: logger})
		ep, _ := cqrs.NewEventGroupProcessorWithConfig(r, cqrs.EventGroupProcessorConfig{
			GenerateSubscribeTopic: func(cqrs.EventGroupProcessorGenerateSubscribeTopicParams) (string, error) { return "evt", nil },
			SubscriberConstructor:  func(cqrs.EventGroupProcessorSubscriberConstructorParams) (message.Subscriber, error) { return g, nil },
			Marshaler:              m, Logger: logger})
		var handled int32
		_ = cp.AddHandlers(cqrs.NewCommandHandler("c", func(ctx context.Context, c *rpCmd) error {
			atomic.AddInt32(&handled, 1)
			return eb.Publish(ctx, &rpEvt{ID: c.ID})
		}))
		_ = ep.AddHandlersGroup("g", cqrs.NewGroupEventHandler(func(ctx context.Context, e *rpEvt) error { atomic.AddInt32(&handled, 1); return nil }))
		var wg sync.WaitGroup
		wg.Add(1)
		go func() { defer wg.Done(); _ = r.Run(context.Background()) }()
		select {
		case <-r.Running():
		case <-time.After(10 * time.Second):
			t.Log("racepass: router did not start")
			continue
		}
		parallel(t, 4, "command senders", func(i int) { _ = cb.Send(context.Background(), &rpCmd{ID: fmt.Sprint(i)}) })
		for i := 0; i < 200 && atomic.LoadInt32(&handled) < 8; i++ {
			time.Sleep(time.Millisecond)
		}
		_ = r.Close()
		waitOrGiveUp(t, &wg, "cqrs router")
		_ = g.Close()
	}
}

func TestRaceC18(t *testing.T) {
	defer report(t)
	for round := 0; round < 20; round++ {
		atomic.AddInt64(&iterations, 1)
		logger := watermill.NopLogger{}
		g := gochannel.NewGoChannel(gochannel.Config{}, logger)
		timeout := 2 * time.Second
		backend, err := requestreply.NewPubSubBackend[rpRes](requestreply.PubSubBackendConfig{
			Publisher:              g,
			SubscriberConstructor:  func(requestreply.PubSubBackendSubscribeParams) (message.Subscriber, error) { return g, nil },
			GenerateSubscribeTopic: func(requestreply.PubSubBackendSubscribeParams) (string, error) { return "reply", nil },
			GeneratePublishTopic:   func(requestreply.PubSubBackendPublishParams) (string, error) { return "reply", nil },
			Logger:                 logger, AckCommandErrors: true, ListenForReplyTimeout: &timeout,
		}, requestreply.BackendPubsubJSONMarshaler[rpRes]{})
		if err != nil {
			t.Fatal(err)
		}
		m := cqrs.JSONMarshaler{}
		r, _ := message.NewRouter(message.RouterConfig{CloseTimeout: 5 * time.Second}, logger)
		cb, _ := cqrs.NewCommandBusWithConfig(g, cqrs.CommandBusConfig{GeneratePublishTopic: func(cqrs.CommandBusGeneratePublishTopicParams) (string, error) { return "cmd", nil }, Marshaler: m, Logger: logger})
		cp, _ := cqrs.NewCommandProcessorWithConfig(r, cqrs.CommandProcessorConfig{
			GenerateSubscribeTopic: func(cqrs.CommandProcessorGenerateSubscribeTopicParams) (string, error) { return "cmd", nil },
			SubscriberConstructor:  func(cqrs.CommandProcessorSubscriberConstructorParams) (message.Subscriber, error) { return g, nil },
			Marshaler:              m, Logger: logger})
		_ = cp.AddHandlers(requestreply.NewCommandHandlerWithResult[rpCmd, rpRes]("h", backend, func(ctx context.Context, c *rpCmd) (rpRes, error) {
			if c.ID == "1" {
				return rpRes{}, errFlaky
			}
			return rpRes{ID: c.ID}, nil
		}))
		var wg sync.WaitGroup
		wg.Add(1)
		go func() { defer wg.Done(); _ = r.Run(context.Background()) }()
		select {
		case <-r.Running():
		case <-time.After(10 * time.Second):
			t.Log("racepass: router did not start")
			continue
		}
		parallel(t, 4, "requesters", func(i int) {
			ctx, cancel := context.WithTimeout(context.Background(), time.Second)
			defer cancel()
			rep, err := requestreply.SendWithReply[rpRes](ctx, cb, backend, &rpCmd{ID: fmt.Sprint(i)})
			if err == nil && rep.Error == nil && rep.HandlerResult.ID != fmt.Sprint(i) {
				t.Errorf("round %d: requester %d got the reply of %q", round, i, rep.HandlerResult.ID)
			}
		})
		_ = r.Close()
		waitOrGiveUp(t, &wg, "request-reply router")
		_ = g.Close()
	}
}

func TestRaceC17(t *testing.T) {
	defer report(t)
	fanOutRounds(t, 25)
	for round := 0; round < 25; round++ {
		atomic.AddInt64(&iterations, 1)
		logger := watermill.NopLogger{}
		g := gochannel.NewGoChannel(gochannel.Config{OutputChannelBuffer: 8}, logger)
		f, err := forwarder.NewForwarder(g, g, logger, forwarder.Config{ForwarderTopic: "fwd"})
		if err != nil {
			t.Fatal(err)
		}
		out, _ := g.Subscribe(context.Background(), "dest")
		var got int32
		go func() {
			for m := range out {
				atomic.AddInt32(&got, 1)
				m.Ack()
			}
		}()
		var wg sync.WaitGroup
		wg.Add(1)
		go func() { defer wg.Done(); _ = f.Run(context.Background()) }()
		select {
		case <-f.Running():
		case <-time.After(10 * time.Second):
			t.Log("racepass: forwarder did not start")
			continue
		}
		pub := forwarder.NewPublisher(g, forwarder.PublisherConfig{ForwarderTopic: "fwd"})
		parallel(t, 4, "publishers through the forwarder", func(i int) {
			m := message.NewMessage(fmt.Sprint(i), []byte("x"))
			m.Metadata.Set("k", "v")
			_ = pub.Publish("dest", m)
		})
		for i := 0; i < 200 && atomic.LoadInt32(&got) < 4; i++ {
			time.Sleep(time.Millisecond)
		}
		_ = f.Close()
		waitOrGiveUp(t, &wg, "forwarder")
		_ = g.Close()
	}
}

// FanOut over two topics with traffic on both at once (part of C17's program).
func fanOutRounds(t *testing.T, n int) {
	for round := 0; round < n; round++ {
		atomic.AddInt64(&iterations, 1)
		logger := watermill.NopLogger{}
		src := gochannel.NewGoChannel(gochannel.Config{OutputChannelBuffer: 8}, logger)
		fo, err := gochannel.NewFanOut(src, logger)
		if err != nil {
			t.Fatal(err)
		}
		var got int32
		for _, topic := range []string{"ta", "tb"} {
			fo.AddSubscription(topic)
			ch, err := fo.Subscribe(context.Background(), topic)
			if err != nil {
				t.Fatal(err)
			}
			topic := topic
			go func() {
				for m := range ch {
					if string(m.Payload) != topic {
						t.Errorf("round %d: subscriber of %s received a message of %s", round, topic, m.Payload)
					}
					atomic.AddInt32(&got, 1)
					m.Ack()
				}
			}()
		}
		var wg sync.WaitGroup
		wg.Add(1)
		go func() { defer wg.Done(); _ = fo.Run(context.Background()) }()
		select {
		case <-fo.Running():
		case <-time.After(10 * time.Second):
			t.Log("racepass: fan-out did not start")
			continue
		}
		parallel(t, 4, "publishers into the fan-out", func(i int) {
			topic := []string{"ta", "tb"}[i%2]
			_ = src.Publish(topic, message.NewMessage(fmt.Sprint(i), []byte(topic)))
		})
		for i := 0; i < 200 && atomic.LoadInt32(&got) < 4; i++ {
			time.Sleep(time.Millisecond)
		}
		_ = fo.Close()
		waitOrGiveUp(t, &wg, "fan-out")
		_ = src.Close()
	}
}

// the handler metrics middleware under overlapping invocations with different outcomes
func handlerMetricsRounds(t *testing.T, n int) {
	for round := 0; round < n; round++ {
		atomic.AddInt64(&iterations, 1)
		reg := prometheus.NewRegistry()
		mb := metrics.NewPrometheusMetricsBuilder(reg, "ns", "sub")
		h := mb.NewRouterMiddleware().Middleware(func(m *message.Message) ([]*message.Message, error) {
			if m.UUID[0]%2 == 1 {
				return nil, errFlaky
			}
			return nil, nil
		})
		parallel(t, 6, "metered handler invocations", func(i int) { _, _ = h(message.NewMessage(fmt.Sprint(i), []byte("x"))) })
		mfs, err := reg.Gather()
		if err != nil {
			t.Fatal(err)
		}
		ok, failed := 0, 0
		for _, mf := range mfs {
			for _, m := range mf.GetMetric() {
				for _, l := range m.GetLabel() {
					if l.GetName() == "success" && m.GetHistogram() != nil {
						if l.GetValue() == "true" {
							ok += int(m.GetHistogram().GetSampleCount())
						} else {
							failed += int(m.GetHistogram().GetSampleCount())
						}
					}
				}
			}
		}
		if ok != 3 || failed != 3 {
			t.Errorf("round %d: 3 successful and 3 failed overlapping invocations, recorded success=true:%d false:%d", round, ok, failed)
		}
	}
}

func TestRaceC20(t *testing.T) {
	defer report(t)
	handlerMetricsRounds(t, 40)
	for round := 0; round < 40; round++ {
		atomic.AddInt64(&iterations, 1)
		g := gochannel.NewGoChannel(gochannel.Config{OutputChannelBuffer: 8}, watermill.NopLogger{})
		mb := metrics.NewPrometheusMetricsBuilder(prometheus.NewRegistry(), "ns", "sub")
		pub, err := mb.DecoratePublisher(g)
		if err != nil {
			t.Fatal(err)
		}
		pub, _ = mb.DecoratePublisher(pub)
		sub, _ := mb.DecorateSubscriber(g)
		ch, _ := sub.Subscribe(context.Background(), "t")
		done := make(chan struct{})
		go func() {
			defer close(done)
			for m := range ch {
				if m.UUID[0]%2 == 0 {
					m.Ack()
				} else if !m.Nack() {
					m.Ack()
				}
			}
		}()
		parallel(t, 4, "metered publishers", func(i int) {
			_ = pub.Publish("t", message.NewMessage(fmt.Sprint(i), []byte("x")), message.NewMessage(fmt.Sprint(i+4), []byte("y")))
		})
		time.Sleep(2 * time.Millisecond)
		_ = sub.Close()
		select {
		case <-done:
		case <-time.After(10 * time.Second):
			t.Log("racepass: metered consumer did not finish")
		}
	}
}
