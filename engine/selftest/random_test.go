package selftest

import (
	"fmt"
	"math/rand"
	"os"
	"strings"
	"testing"

	"verif/vs"
)

// random small concurrent programs: the outcome set found by DPOR must equal the one found by the
// exhaustive cached search (every interleaving, state caching on the happens-before hash).

type rop struct {
	kind int
	a    int
}

const (
	rLock = iota
	rUnlock
	rSend
	rRecv
	rClose
	rSelect
	rAdd
	rDone
	rWait
	rCancel
	rErr
	rRLock
	rRUnlock
	rWLock
	rWUnlock
	rNKinds
)

func genProgram(r *rand.Rand) [][]rop {
	ng := 2 + r.Intn(3)
	p := make([][]rop, ng)
	for g := range p {
		n := 2 + r.Intn(4)
		for i := 0; i < n; i++ {
			p[g] = append(p[g], rop{kind: r.Intn(rNKinds), a: r.Intn(2)})
		}
	}
	return p
}

func runProgram(p [][]rop, caps [2]int) func() {
	return func() {
		var mu [2]vs.Mutex
		var rw vs.RWMutex
		var wg vs.WaitGroup
		chs := [2]chan int{make(chan int, caps[0]), make(chan int, caps[1])}
		ctx, cancel := vs.WithCancel(bg())
		child, _ := vs.WithCancel(ctx)
		logs := make([]string, len(p))
		held := make([][2]bool, len(p))
		for gi := range p {
			gi := gi
			vs.Go(func() {
				defer func() {
					if r := recover(); r != nil {
						logs[gi] += fmt.Sprintf("P(%v)", r)
					}
				}()
				for _, o := range p[gi] {
					switch o.kind {
					case rLock:
						if !held[gi][o.a] {
							mu[o.a].Lock()
							held[gi][o.a] = true
							logs[gi] += fmt.Sprintf("L%d", o.a)
						}
					case rUnlock:
						if held[gi][o.a] {
							mu[o.a].Unlock()
							held[gi][o.a] = false
						}
					case rSend:
						vs.SendTo(chs[o.a])(gi)
						logs[gi] += "s"
					case rRecv:
						v, ok := vs.Recv2(chs[o.a])
						logs[gi] += fmt.Sprintf("r%d%v", v, ok)
					case rClose:
						vs.Close(chs[o.a])
						logs[gi] += "c"
					case rSelect:
						c0, c1, c2 := vs.RecvCase(chs[0]), vs.SendCaseOf(chs[1]).With(9), vs.RecvCase(child.Done())
						i := vs.Select(o.a == 0, c0, c1, c2)
						logs[gi] += fmt.Sprintf("S%d", i)
					case rAdd:
						wg.Add(1)
					case rDone:
						wg.Done()
						logs[gi] += "d"
					case rWait:
						wg.Wait()
						logs[gi] += "w"
					case rCancel:
						cancel()
					case rErr:
						logs[gi] += fmt.Sprintf("e%v", child.Err() != nil)
					case rRLock:
						rw.RLock()
						logs[gi] += "R"
						rw.RUnlock()
					case rWLock:
						rw.Lock()
						logs[gi] += "W"
						rw.Unlock()
					}
				}
				logs[gi] += "."
			})
		}
		vs.Quiesce()
		vs.Note("%s", strings.Join(logs, "|"))
	}
}

func TestRandomProgramsDPORvsExhaustive(t *testing.T) {
	r := rand.New(rand.NewSource(20260927))
	n := 400
	if v := os.Getenv("VS_RANDOM_N"); v != "" {
		fmt.Sscan(v, &n)
	}
	if testing.Short() {
		n = 60
	}
	totalC, totalD := 0, 0
	for i := 0; i < n; i++ {
		p := genProgram(r)
		caps := [2]int{r.Intn(2), r.Intn(2)}
		body := runProgram(p, caps)
		name := fmt.Sprintf("rand%d", i)
		s1, st1 := outcomesM(t, name, -1, false, false, body)
		s2, st2 := outcomesM(t, name+"/dpor", -1, false, true, body)
		if keys(s1) != keys(s2) {
			t.Fatalf("program %d %v caps %v:\n exhaustive {%s}\n dpor       {%s}", i, p, caps, keys(s1), keys(s2))
		}
		totalC += st1.Executions
		totalD += st2.Executions
	}
	t.Logf("%d programs: exhaustive executions %d, DPOR executions %d", n, totalC, totalD)
}
