package selftest

import (
	"testing"
	"time"

	"verif/explore"
	"verif/vs"
)

// A closure started with `go` reads a variable its parent reassigns: with LazyStart the late start is explored.
func TestLazyStartSeesReassignedVariable(t *testing.T) {
	set := map[string]bool{}
	sc := &explore.Scenario{Name: "lazy", C: 1, Opts: vs.Options{LazyStart: true}, HangOK: true,
		Body: func() {
			ch := make(chan int, 2)
			vs.SendTo(ch)(1)
			vs.SendTo(ch)(2)
			vs.Close(ch)
			var wg vs.WaitGroup
			var seen []int
			var x int
			for {
				v, ok := vs.Recv2(ch)
				if !ok {
					break
				}
				x = v
				wg.Add(1)
				vs.Go(func() { seen = append(seen, x); wg.Done() })
			}
			wg.Wait()
			s := ""
			for _, v := range seen {
				s += string(rune('0' + v))
			}
			vs.Note("%s", s)
		},
		Check: func(r *vs.Result) []vs.Failure {
			if len(r.Obs) > 0 {
				set[r.Obs[0]] = true
			}
			return nil
		}}
	st := explore.Explore(sc, time.Time{})
	if st.EngineError != "" {
		t.Fatal(st.EngineError)
	}
	if st.Complete == 0 {
		t.Fatalf("no complete execution: %+v", st)
	}
	if !set["22"] || !(set["12"] || set["21"]) {
		t.Fatalf("outcomes %v", set)
	}
}
