package selftest

import (
	"context"
	"fmt"
	"sort"
	"strings"
	"testing"
	"time"

	"verif/explore"
	"verif/vs"
)

// outcomes explores body exhaustively and returns the set of final observation logs.
func outcomes(t *testing.T, name string, c int, body func()) (map[string]bool, explore.Stats) {
	set, st := outcomesMode(t, name, c, false, body)
	if c < 0 {
		// partial-order reduction (DPOR + sleep sets) must give exactly the same outcome set
		set3, st3 := outcomesMode2(t, name+"/dpor", c, body)
		if keys(set) != keys(set3) {
			t.Fatalf("%s: DPOR exploration differs: cached {%s} vs dpor {%s}", name, keys(set), keys(set3))
		}
		t.Logf("%s: cached execs=%d states=%d; dpor execs=%d blocked=%d", name, st.Executions, st.States, st3.Executions, st3.SleepBlocked)
	}
	return set, st
}

func (noCh) End(w *vs.World) {}

type noCh struct{}

func outcomesMode(t *testing.T, name string, c int, sleep bool, body func()) (map[string]bool, explore.Stats) {
	return outcomesM(t, name, c, false, false, body)
}

func outcomesMode2(t *testing.T, name string, c int, body func()) (map[string]bool, explore.Stats) {
	return outcomesM(t, name, c, false, true, body)
}

func outcomesM(t *testing.T, name string, c int, sleep, dpor bool, body func()) (map[string]bool, explore.Stats) {
	set := map[string]bool{}
	sc := &explore.Scenario{Name: name, C: c, F: 2, Body: body, HangOK: true, PanicOK: true, DPOR: dpor,
		Check: func(r *vs.Result) []vs.Failure {
			o := strings.Join(r.Obs, ",")
			if !r.BodyDone {
				o += "|HANG"
			}
			if r.Panic != "" {
				o += "|PANIC:" + r.Panic
			}
			set[o] = true
			return nil
		}}
	st := explore.Explore(sc, time.Time{})
	if st.EngineError != "" {
		t.Fatalf("%s: engine error %s", name, st.EngineError)
	}
	return set, st
}

func keys(m map[string]bool) string {
	var ks []string
	for k := range m {
		ks = append(ks, k)
	}
	sort.Strings(ks)
	return strings.Join(ks, " ; ")
}

func TestLostUpdate(t *testing.T) {
	set, st := outcomes(t, "lostupdate", -1, func() {
		x := 0
		var mu vs.Mutex
		var wg vs.WaitGroup
		for i := 0; i < 2; i++ {
			wg.Add(1)
			vs.Go(func() {
				mu.Lock()
				v := x
				mu.Unlock()
				mu.Lock()
				x = v + 1
				mu.Unlock()
				wg.Done()
			})
		}
		wg.Wait()
		vs.Note("x=%d", x)
	})
	if !set["x=1"] || !set["x=2"] || len(set) != 2 {
		t.Fatalf("outcomes: %s", keys(set))
	}
	t.Logf("execs=%d states=%d trans=%d", st.Executions, st.States, st.Transitions)
}

func TestUnbufferedPingPong(t *testing.T) {
	set, _ := outcomes(t, "pingpong", -1, func() {
		ch := make(chan int)
		done := make(chan struct{})
		vs.Go(func() {
			v := vs.Recv(ch)
			vs.Note("got%d", v)
			vs.Close(done)
		})
		vs.SendTo(ch)(7)
		vs.Recv(done)
	})
	if len(set) != 1 || !set["got7"] {
		t.Fatalf("outcomes: %s", keys(set))
	}
}

func TestSelectBothReady(t *testing.T) {
	set, _ := outcomes(t, "select2", -1, func() {
		a := make(chan int, 1)
		b := make(chan int, 1)
		vs.SendTo(a)(1)
		vs.SendTo(b)(2)
		ca, cb := vs.RecvCase(a), vs.RecvCase(b)
		switch vs.Select(false, ca, cb) {
		case 0:
			vs.Note("a%d", ca.Val())
		case 1:
			vs.Note("b%d", cb.Val())
		}
	})
	if len(set) != 2 || !set["a1"] || !set["b2"] {
		t.Fatalf("outcomes: %s", keys(set))
	}
}

func TestDeadlockDetected(t *testing.T) {
	set, _ := outcomes(t, "deadlock", -1, func() {
		var a, b vs.Mutex
		var wg vs.WaitGroup
		wg.Add(2)
		vs.Go(func() { a.Lock(); b.Lock(); b.Unlock(); a.Unlock(); wg.Done() })
		vs.Go(func() { b.Lock(); a.Lock(); a.Unlock(); b.Unlock(); wg.Done() })
		wg.Wait()
		vs.Note("ok")
	})
	if !set["ok"] || !set["|HANG"] {
		t.Fatalf("outcomes: %s", keys(set))
	}
}

func TestRWMutexWriterBlocksNewReaders(t *testing.T) {
	// reader1 holds RLock and waits for reader2's recursive-style RLock: with a writer announced in
	// between, reader2 blocks -> deadlock reachable.
	set, _ := outcomes(t, "rw", -1, func() {
		var rw vs.RWMutex
		sig := make(chan struct{})
		var wg vs.WaitGroup
		wg.Add(3)
		vs.Go(func() { rw.RLock(); vs.Recv(sig); rw.RUnlock(); wg.Done() })
		vs.Go(func() { rw.Lock(); rw.Unlock(); wg.Done() })
		vs.Go(func() { rw.RLock(); vs.Close(sig); rw.RUnlock(); wg.Done() })
		wg.Wait()
		vs.Note("ok")
	})
	if !set["ok"] || !set["|HANG"] {
		t.Fatalf("outcomes: %s", keys(set))
	}
}

func TestTimerQuiescent(t *testing.T) {
	set, _ := outcomes(t, "timer", -1, func() {
		ch := make(chan int)
		vs.Go(func() { vs.Sleep(5 * time.Second); vs.SendTo(ch)(1) })
		cr, ct := vs.RecvCase(ch), vs.RecvCase(vs.After(10*time.Second))
		switch vs.Select(false, cr, ct) {
		case 0:
			vs.Note("value at %v", vs.VirtualNow())
		case 1:
			vs.Note("timeout")
		}
	})
	if len(set) != 1 || !set["value at 5s"] {
		t.Fatalf("outcomes: %s", keys(set))
	}
}

func TestCtxCancelTree(t *testing.T) {
	set, _ := outcomes(t, "ctx", -1, func() {
		ctx, cancel := vs.WithCancel(bg())
		child, _ := vs.WithTimeout(ctx, time.Hour)
		done := make(chan struct{})
		vs.Go(func() { vs.Recv(child.Done()); vs.Note("err=%v", child.Err()); vs.Close(done) })
		cancel()
		vs.Recv(done)
	})
	if len(set) != 1 || !set["err=context canceled"] {
		t.Fatalf("outcomes: %s", keys(set))
	}
}

// context.WithoutCancel: the values of the parent without its cancellation; contexts derived from it have a
// cancellation tree of their own (cancelling the original parent does not reach them, their own timeout does).
func TestCtxWithoutCancel(t *testing.T) {
	type key struct{}
	set, _ := outcomes(t, "ctx-without-cancel", -1, func() {
		parent, cancel := vs.WithCancel(context.WithValue(bg(), key{}, "v"))
		detached := vs.WithoutCancel(parent)
		child, cancelChild := vs.WithTimeout(detached, time.Hour)
		defer cancelChild()
		cancel()
		vs.Note("value=%v parentErr=%v detachedErr=%v childErr=%v", child.Value(key{}), parent.Err(), detached.Err(), child.Err())
		vs.Sleep(2 * time.Hour)
		vs.Note("after the timeout: childErr=%v", child.Err())
	})
	want := "value=v parentErr=context canceled detachedErr=<nil> childErr=<nil>,after the timeout: childErr=context deadline exceeded"
	if len(set) != 1 || !set[want] {
		t.Fatalf("outcomes: %s", keys(set))
	}
}

func TestSendOnClosedPanics(t *testing.T) {
	set, _ := outcomes(t, "sendclosed", -1, func() {
		ch := make(chan int, 1)
		var wg vs.WaitGroup
		wg.Add(2)
		vs.Go(func() { defer wg.Done(); vs.Close(ch) })
		vs.Go(func() {
			defer wg.Done()
			defer func() {
				if r := recover(); r != nil {
					vs.Note("panic:%v", r)
				}
			}()
			vs.SendTo(ch)(1)
			vs.Note("sent")
		})
		wg.Wait()
	})
	if len(set) != 2 || !set["sent"] || !set["panic:send on closed channel"] {
		t.Fatalf("outcomes: %s", keys(set))
	}
}

func TestPreemptionBound(t *testing.T) {
	body := func() {
		var wg vs.WaitGroup
		var mu vs.Mutex
		s := ""
		for i := 0; i < 2; i++ {
			wg.Add(1)
			id := fmt.Sprint(i)
			vs.Go(func() {
				for k := 0; k < 2; k++ {
					mu.Lock()
					s += id
					mu.Unlock()
				}
				wg.Done()
			})
		}
		wg.Wait()
		vs.Note(s)
	}
	s0, _ := outcomes(t, "pb0", 0, body)
	sInf, _ := outcomes(t, "pbinf", -1, body)
	if len(sInf) != 6 {
		t.Fatalf("unbounded outcomes: %s", keys(sInf))
	}
	if len(s0) >= len(sInf) {
		t.Fatalf("c=0 should see fewer outcomes: %s", keys(s0))
	}
}
