package selftest

import "context"

func bg() context.Context { return context.Background() }
