package selftest

import (
	"testing"

	"verif/vs"
)

// A non-blocking send may miss a receiver that has only just reached its receive, but never one that
// was still blocked there at a quiescence point (it is parked for certain then).
func TestNonBlockingSendAfterQuiescenceFindsParkedReceiver(t *testing.T) {
	prog := func(quiesce bool) func() {
		return func() {
			ch := make(chan int)
			got := 0
			vs.Go(func() { got = vs.Recv(ch) })
			if quiesce {
				vs.Quiesce()
			}
			sent := vs.Select(true, vs.SendCaseOf(ch).With(7)) == 0
			vs.Quiesce()
			vs.Observe("sent=%v got=%d", sent, got)
		}
	}
	set, _ := outcomes(t, "nonblocking-send/racing", -1, prog(false))
	if keys(set) != "sent=false got=0 ; sent=true got=7" {
		t.Fatalf("racing receiver: outcomes {%s}", keys(set))
	}
	set, _ = outcomes(t, "nonblocking-send/parked", -1, prog(true))
	if keys(set) != "sent=true got=7" {
		t.Fatalf("parked receiver: outcomes {%s}", keys(set))
	}
}
