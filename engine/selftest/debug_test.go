package selftest

import (
	"fmt"
	"os"
	"testing"
	"time"

	"verif/explore"
	"verif/vs"
)

func TestDebugProgram(t *testing.T) {
	if os.Getenv("VS_DEBUG_PROG") == "" {
		t.Skip()
	}
	p := [][]rop{{{5, 0}, {10, 1}, {2, 1}, {0, 1}, {2, 0}}, {{9, 1}, {14, 0}}, {{8, 1}, {14, 0}, {4, 1}}}
	body := runProgram(p, [2]int{0, 1})
	n := 0
	sc := &explore.Scenario{Name: "dbg", C: -1, F: 2, Body: body, HangOK: true, PanicOK: true, DPOR: true,
		Check: func(r *vs.Result) []vs.Failure {
			n++
			fmt.Printf("exec %d: %v steps=%d\n", n, r.Obs, r.Steps)
			return nil
		}}
	explore.DebugDPOR = true
	st := explore.Explore(sc, time.Time{})
	fmt.Println(st.Executions, st.SleepBlocked, st.EngineError)
}
