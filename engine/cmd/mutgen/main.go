// Command mutgen enumerates first-order mutants of one Go source file as byte-range replacements
// (JSON lines on stdout). It is used by bin/mutation-campaign to measure which changes of the anchored
// code the checks detect; it plays no part in deciding the properties.
package main

import (
	"encoding/json"
	"fmt"
	"go/ast"
	"go/parser"
	"go/token"
	"os"
	"regexp"
	"strings"
)

type mutant struct {
	File  string `json:"file"`
	Line  int    `json:"line"`
	Op    string `json:"op"`
	Desc  string `json:"desc"`
	Func  string `json:"func"`
	Start int    `json:"start"`
	End   int    `json:"end"`
	Repl  string `json:"repl"`
}

var logRe = regexp.MustCompile(`(?i)\blog(ger)?\b|LogFields|\.Trace\(|\.Debug\(|\.Info\(`)

var swaps = map[token.Token]string{
	token.EQL: "!=", token.NEQ: "==", token.LSS: "<=", token.LEQ: "<", token.GTR: ">=", token.GEQ: ">",
	token.LAND: "||", token.LOR: "&&", token.ADD: "-", token.SUB: "+",
}

func main() {
	path := os.Args[1]
	rel := path
	if len(os.Args) > 2 {
		rel = os.Args[2]
	}
	src, err := os.ReadFile(path)
	if err != nil {
		panic(err)
	}
	fset := token.NewFileSet()
	f, err := parser.ParseFile(fset, path, src, parser.ParseComments)
	if err != nil {
		panic(err)
	}
	off := func(p token.Pos) int { return fset.Position(p).Offset }
	text := func(n ast.Node) string { return string(src[off(n.Pos()):off(n.End())]) }
	enc := json.NewEncoder(os.Stdout)
	curFunc := ""
	emit := func(n ast.Node, op, desc string, start, end int, repl string) {
		enc.Encode(mutant{File: rel, Line: fset.Position(n.Pos()).Line, Op: op, Desc: desc, Func: curFunc, Start: start, End: end, Repl: repl})
	}
	short := func(s string) string {
		s = strings.Join(strings.Fields(s), " ")
		if len(s) > 90 {
			s = s[:90] + "…"
		}
		return s
	}
	isLockCall := func(s ast.Stmt) (recv string, kind string, ok bool) {
		var call *ast.CallExpr
		switch x := s.(type) {
		case *ast.ExprStmt:
			call, _ = x.X.(*ast.CallExpr)
		case *ast.DeferStmt:
			call = x.Call
		}
		if call == nil {
			return
		}
		sel, _ := call.Fun.(*ast.SelectorExpr)
		if sel == nil {
			return
		}
		switch sel.Sel.Name {
		case "Lock", "RLock", "Unlock", "RUnlock":
			return text(sel.X), sel.Sel.Name, true
		}
		return
	}
	stmts := func(list []ast.Stmt) {
		for i, s := range list {
			t := text(s)
			if logRe.MatchString(t) {
				switch s.(type) {
				case *ast.ExprStmt, *ast.AssignStmt:
					continue
				}
			}
			switch x := s.(type) {
			case *ast.ExprStmt:
				// lock pair: X.Lock(); defer X.Unlock()
				if r, k, ok := isLockCall(s); ok && (k == "Lock" || k == "RLock") && i+1 < len(list) {
					if r2, k2, ok2 := isLockCall(list[i+1]); ok2 && r2 == r && strings.HasSuffix(k2, "Unlock") {
						if _, isDefer := list[i+1].(*ast.DeferStmt); isDefer {
							emit(s, "lock-pair-delete", "remove "+short(t)+" and its deferred unlock", off(s.Pos()), off(list[i+1].End()), "")
						}
					}
				}
				emit(s, "stmt-delete", "delete "+short(t), off(s.Pos()), off(s.End()), "")
			case *ast.DeferStmt, *ast.GoStmt, *ast.SendStmt, *ast.IncDecStmt:
				emit(s, "stmt-delete", "delete "+short(t), off(s.Pos()), off(s.End()), "")
				if d, ok := s.(*ast.DeferStmt); ok {
					emit(s, "defer-to-call", "run immediately instead of deferring: "+short(t), off(d.Pos()), off(d.Call.Pos()), "")
				}
			case *ast.AssignStmt:
				if x.Tok != token.DEFINE {
					emit(s, "stmt-delete", "delete "+short(t), off(s.Pos()), off(s.End()), "")
				}
			case *ast.BranchStmt:
				if x.Label == nil && x.Tok == token.BREAK {
					emit(s, "branch-swap", "break -> continue", off(s.Pos()), off(s.End()), "continue")
				}
				if x.Label == nil && x.Tok == token.CONTINUE {
					emit(s, "branch-swap", "continue -> break", off(s.Pos()), off(s.End()), "break")
				}
			case *ast.ReturnStmt:
				if n := len(x.Results); n >= 1 {
					last := x.Results[n-1]
					lt := text(last)
					if lt == "err" || strings.Contains(lt, "Err") || strings.Contains(lt, "errors.") || strings.Contains(lt, "fmt.Errorf") {
						emit(s, "return-nil-error", "return nil instead of "+short(lt), off(last.Pos()), off(last.End()), "nil")
					}
				}
			}
		}
	}
	ast.Inspect(f, func(n ast.Node) bool {
		switch x := n.(type) {
		case *ast.FuncDecl:
			curFunc = x.Name.Name
			if x.Recv != nil && len(x.Recv.List) > 0 {
				curFunc = strings.TrimPrefix(text(x.Recv.List[0].Type), "*") + "." + curFunc
			}
		case *ast.IfStmt:
			if be, ok := x.Cond.(*ast.BinaryExpr); ok && (be.Op == token.EQL || be.Op == token.NEQ) {
				break // the operator swap below is the same mutant
			}
			if !logRe.MatchString(text(x.Cond)) {
				emit(x, "cond-negate", "if "+short(text(x.Cond))+" -> negated", off(x.Cond.Pos()), off(x.Cond.End()), "!("+text(x.Cond)+")")
			}
		case *ast.BinaryExpr:
			if r, ok := swaps[x.Op]; ok {
				emit(x, "binop-swap", fmt.Sprintf("%s -> %s in %s", x.Op, r, short(text(x))), off(x.OpPos), off(x.OpPos)+len(x.Op.String()), r)
			}
		case *ast.BlockStmt:
			stmts(x.List)
		case *ast.CaseClause:
			stmts(x.Body)
		case *ast.CommClause:
			stmts(x.Body)
		case *ast.SelectStmt:
			if len(x.Body.List) >= 2 {
				for _, c := range x.Body.List {
					cc := c.(*ast.CommClause)
					if cc.Comm != nil {
						emit(cc, "select-case-delete", "remove select case "+short(text(cc.Comm)), off(cc.Pos()), off(cc.End()), "")
					}
				}
			}
		}
		return true
	})
}
