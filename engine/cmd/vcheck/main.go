// Command vcheck runs the scenario instances of one property under the explorer.
//
//	vcheck run    -prop C03 -tier quick -evidence FILE -known FILE -replays DIR [-budget SEC]
//	vcheck worker -prop C03 -tier quick -name INSTANCE -budget SEC        (one JSON line on stdout)
//	vcheck replay -file REPLAY.json
//	vcheck list   -prop C03 -tier quick
package main

import (
	"encoding/json"
	"flag"
	"fmt"
	"os"
	"os/exec"
	"path/filepath"
	"regexp"
	"runtime/debug"
	"runtime/pprof"
	"sort"
	"strconv"
	"strings"
	"sync"
	"time"

	"verif/explore"
	"verif/harness/reg"
	"verif/vs"

	_ "verif/harness/c01"
	_ "verif/harness/c02"
	_ "verif/harness/c03"
	_ "verif/harness/c04"
	_ "verif/harness/c05"
	_ "verif/harness/c06"
	_ "verif/harness/c07"
	_ "verif/harness/c08"
	_ "verif/harness/c09"
	_ "verif/harness/c10"
	_ "verif/harness/c11"
	_ "verif/harness/c12"
	_ "verif/harness/c13"
	_ "verif/harness/c14"
	_ "verif/harness/c15"
	_ "verif/harness/c16"
	_ "verif/harness/c17"
	_ "verif/harness/c18"
	_ "verif/harness/c19"
	_ "verif/harness/c20"
)

type replayFile struct {
	Property string            `json:"property"`
	Instance string            `json:"instance"`
	Tier     string            `json:"tier"`
	Finding  string            `json:"known_finding,omitempty"`
	V        explore.Violation `json:"violation"`
}

type knownFinding struct {
	ID       string `json:"id"`
	Property string `json:"property"`
	Status   string `json:"status"` // "open" or "fixed"
	Scenario string `json:"scenario_regex"`
	Clause   string `json:"clause"`
	Match    string `json:"msg_regex"`
	What     string `json:"what"`
	Commit   string `json:"commit,omitempty"`
}

func tierOf(s string) reg.Tier {
	if s == "thorough" {
		return reg.Thorough
	}
	return reg.Quick
}

func main() {
	if len(os.Args) < 2 {
		fmt.Fprintln(os.Stderr, "usage: vcheck run|worker|replay|list ...")
		os.Exit(2)
	}
	fs := flag.NewFlagSet(os.Args[1], flag.ExitOnError)
	prop := fs.String("prop", "", "property id")
	tier := fs.String("tier", "quick", "quick|thorough")
	name := fs.String("name", "", "instance name (worker)")
	budget := fs.Float64("budget", 0, "wall-clock budget in seconds (per instance for worker, overall for run)")
	evidence := fs.String("evidence", "", "evidence file to write")
	known := fs.String("known", "", "known findings file")
	replays := fs.String("replays", "", "directory for replay files")
	file := fs.String("file", "", "replay file")
	workers := fs.Int("workers", 16, "parallel worker processes")
	rwstats := fs.String("rwstats", "", "rewriter statistics file to embed into the evidence")
	fs.Parse(os.Args[2:])
	loadLineMap()
	switch os.Args[1] {
	case "list":
		for _, i := range reg.For(*prop, tierOf(*tier)) {
			fmt.Println(i.Name)
		}
	case "worker":
		worker(*prop, *tier, *name, *budget, *known)
	case "replay":
		os.Exit(replay(*file))
	case "run":
		os.Exit(run(*prop, *tier, *budget, *evidence, *known, *replays, *workers, *rwstats))
	default:
		fmt.Fprintln(os.Stderr, "unknown command")
		os.Exit(2)
	}
}

// loadLineMap reads linemap.json next to the executable (written by the rewriter at build time).
func loadLineMap() {
	self, err := os.Executable()
	if err != nil {
		return
	}
	b, err := os.ReadFile(filepath.Join(filepath.Dir(self), "linemap.json"))
	if err != nil {
		return
	}
	raw := map[string]map[string]string{}
	if json.Unmarshal(b, &raw) != nil {
		return
	}
	vs.LineMap = map[string]map[int]string{}
	for f, m := range raw {
		mm := map[int]string{}
		for k, v := range m {
			n, _ := strconv.Atoi(k)
			mm[n] = v
		}
		vs.LineMap[f] = mm
	}
}

func worker(prop, tier, name string, budget float64, known string) {
	debug.SetGCPercent(400)
	if pf := os.Getenv("VCHECK_CPUPROFILE"); pf != "" {
		f, _ := os.Create(pf)
		pprof.StartCPUProfile(f)
		defer pprof.StopCPUProfile()
	}
	inst := reg.Find(prop, name)
	if inst == nil {
		fmt.Printf("{\"scenario\":%q,\"engine_error\":\"unknown instance\"}\n", name)
		return
	}
	sc := inst.Make(tierOf(tier))
	kfs := loadKnown(known)
	sc.Known = func(f vs.Failure) string {
		if k := matchKnown(kfs, prop, name, f.Clause, f.Msg); k != nil {
			return k.ID
		}
		return ""
	}
	var dl time.Time
	if budget > 0 {
		dl = time.Now().Add(time.Duration(budget * float64(time.Second)))
	}
	st := explore.Explore(sc, dl)
	st.Scenario = name
	b, _ := json.Marshal(st)
	fmt.Println(string(b))
}

func replay(file string) int {
	b, err := os.ReadFile(file)
	if err != nil {
		fmt.Fprintln(os.Stderr, err)
		return 2
	}
	var rf replayFile
	if err := json.Unmarshal(b, &rf); err != nil {
		fmt.Fprintln(os.Stderr, err)
		return 2
	}
	inst := reg.Find(rf.Property, rf.Instance)
	if inst == nil {
		fmt.Fprintln(os.Stderr, "unknown instance", rf.Instance)
		return 2
	}
	sc := inst.Make(tierOf(rf.Tier))
	res, fails, cerr := explore.Replay(sc, rf.V.Choices)
	fmt.Printf("replay of %s / %s (%d choices)\n", rf.Property, rf.Instance, len(rf.V.Choices))
	for _, l := range res.Trace {
		fmt.Println(l)
	}
	fmt.Println("observations:")
	for _, o := range res.Obs {
		fmt.Println("  ", o)
	}
	if res.Panic != "" {
		fmt.Println("panic:", res.Panic)
		fmt.Println(res.PanicG)
	}
	for _, a := range res.Alive {
		fmt.Printf("alive: g%s %s spawned at %s blocked in %s %s\n", a.ID, a.Name, a.Site, a.Op, a.OpSite)
	}
	if cerr != "" {
		fmt.Println("ENGINE ERROR:", cerr)
		return 2
	}
	if len(fails) == 0 {
		fmt.Println("no violation on replay")
		return 0
	}
	for _, f := range fails {
		fmt.Printf("violated clause %q: %s\n", f.Clause, f.Msg)
	}
	fmt.Printf("VIOLATION property=%s replay=%s\n", rf.Property, file)
	return 1
}

func loadKnown(path string) []knownFinding {
	if path == "" {
		return nil
	}
	b, err := os.ReadFile(path)
	if err != nil {
		return nil
	}
	var kf struct {
		Findings []knownFinding `json:"findings"`
	}
	if err := json.Unmarshal(b, &kf); err != nil {
		fmt.Fprintln(os.Stderr, "vcheck: cannot parse known findings:", err)
		os.Exit(2)
	}
	return kf.Findings
}

func matchKnown(kfs []knownFinding, prop, scenario string, clause, msg string) *knownFinding {
	for i := range kfs {
		k := &kfs[i]
		if k.Property != prop || k.Status != "open" || k.Clause != clause {
			continue
		}
		if k.Scenario != "" {
			if ok, _ := regexp.MatchString(k.Scenario, scenario); !ok {
				continue
			}
		}
		if k.Match != "" {
			if ok, _ := regexp.MatchString(k.Match, msg); !ok {
				continue
			}
		}
		return k
	}
	return nil
}

func run(prop, tier string, budget float64, evidence, known, replays string, workers int, rwstats string) int {
	start := time.Now()
	insts := reg.For(prop, tierOf(tier))
	if len(insts) == 0 {
		fmt.Fprintf(os.Stderr, "vcheck: no instances for %s\n", prop)
		return 2
	}
	if budget == 0 {
		budget = 150
		if tier == "thorough" {
			budget = 900
		}
	}
	sort.SliceStable(insts, func(a, b int) bool { return insts[a].Weight > insts[b].Weight })
	self, _ := os.Executable()
	results := make([]explore.Stats, len(insts))
	sem := make(chan struct{}, workers)
	var wg sync.WaitGroup
	globalDeadline := start.Add(time.Duration(budget * float64(time.Second)))
	// per-instance budget: the whole budget (instances run in parallel); late starters get what is left
	for i, inst := range insts {
		i, inst := i, inst
		wg.Add(1)
		sem <- struct{}{}
		go func() {
			defer wg.Done()
			defer func() { <-sem }()
			left := time.Until(globalDeadline).Seconds()
			if left < 1 {
				results[i] = explore.Stats{Scenario: inst.Name, Capped: "not started: budget exhausted", BoundC: -2}
				return
			}
			cmd := exec.Command(self, "worker", "-prop", prop, "-tier", tier, "-name", inst.Name, "-budget", strconv.FormatFloat(left, 'f', 1, 64), "-known", known)
			cmd.Env = append(os.Environ(), "GOMAXPROCS=1", "GOMEMLIMIT=3500MiB")
			var errb strings.Builder
			cmd.Stderr = &errb
			out, err := cmd.Output()
			var st explore.Stats
			lines := strings.Split(strings.TrimSpace(string(out)), "\n")
			if jerr := json.Unmarshal([]byte(lines[len(lines)-1]), &st); jerr != nil || err != nil {
				tail := errb.String()
				if len(tail) > 3000 {
					tail = tail[len(tail)-3000:]
				}
				st = explore.Stats{Scenario: inst.Name, EngineError: fmt.Sprintf("worker failed: %v %v\nstdout: %.500s\nstderr: %s", err, jerr, string(out), tail), BoundC: -2}
			}
			st.Scenario = inst.Name
			results[i] = st
		}()
	}
	wg.Wait()

	kfs := loadKnown(known)
	type scen struct {
		Name        string  `json:"name"`
		Executions  int     `json:"executions"`
		States      int     `json:"states"`
		Transitions int     `json:"transitions"`
		Outcomes    int     `json:"distinct_outcomes"`
		C           int     `json:"c_completed"`
		F           int     `json:"f"`
		Horizon     int     `json:"horizon_hits"`
		Exhaustive  bool    `json:"exhaustive"`
		Capped      string  `json:"capped,omitempty"`
		Violations  int     `json:"violating_executions"`
		WallS       float64 `json:"wall_s"`
	}
	var scens []scen
	tot := explore.Stats{Exhaustive: true}
	var samples []any
	exit := 0
	var lines []string
	nviol, nknown := 0, 0
	knownSeen := map[string]bool{}
	engineErr := ""
	os.MkdirAll(replays, 0o755)
	// remove stale replay files of this property
	if old, _ := filepath.Glob(filepath.Join(replays, prop+"-*.json")); len(old) > 0 {
		for _, f := range old {
			os.Remove(f)
		}
	}
	for i, st := range results {
		scens = append(scens, scen{st.Scenario, st.Executions, st.States, st.Transitions, st.Outcomes, st.BoundC, st.BoundF, st.HorizonHits, st.Exhaustive, st.Capped, st.ViolationCnt, st.WallS})
		tot.Executions += st.Executions
		tot.Complete += st.Complete
		tot.States += st.States
		tot.Transitions += st.Transitions
		tot.Outcomes += st.Outcomes
		tot.Nontrivial += st.Nontrivial
		tot.HorizonHits += st.HorizonHits
		nknown += st.KnownCnt
		if !st.Exhaustive {
			tot.Exhaustive = false
		}
		if st.EngineError != "" {
			engineErr += st.Scenario + ": " + st.EngineError + "\n"
		} else if st.Executions > 0 && st.Complete == 0 && st.SleepBlocked == 0 && len(st.Violations) == 0 && !strings.Contains(st.Capped, "deadline") {
			engineErr += st.Scenario + ": VACUOUS: no execution ran to completion (every one was pruned)\n"
		}
		if len(samples) < 3 && len(st.SampleTrace) > 0 {
			samples = append(samples, map[string]any{"scenario": st.Scenario, "default_schedule_trace": st.SampleTrace, "observations": st.Sample})
		}
		for vi := range st.Violations {
			v := &st.Violations[vi]
			rf := replayFile{Property: prop, Instance: insts[i].Name, Tier: tier, V: *v}
			var k *knownFinding
			if v.Known != "" {
				for ki := range kfs {
					if kfs[ki].ID == v.Known {
						k = &kfs[ki]
					}
				}
				rf.Finding = v.Known
			}
			path := filepath.Join(replays, fmt.Sprintf("%s-%d-%d.json", prop, i, vi))
			b, _ := json.MarshalIndent(rf, "", " ")
			os.WriteFile(path, b, 0o644)
			if k != nil {
				if !knownSeen[k.ID] {
					knownSeen[k.ID] = true
					lines = append(lines, fmt.Sprintf("KNOWN-FINDING: property=%s %s [%s] scenario=%s replay=%s", prop, k.What, k.ID, st.Scenario, path))
				}
				continue
			}
			nviol++
			exit = 1
			if nviol <= 4 {
				lines = append(lines, fmt.Sprintf("VIOLATION property=%s replay=%s", prop, path))
				lines = append(lines, fmt.Sprintf("  scenario=%s clause=%s: %.600s", st.Scenario, v.Clause, v.Msg))
			} else if nviol == 5 {
				lines = append(lines, "  (further violations: see replay files)")
			}
		}
	}
	// ---- free-running race pass (supplementary: the data-race-freedom assumption of the exploration above)
	rp := map[string]any{"ran": false}
	if bin := filepath.Join(filepath.Dir(self), "racepass.test"); fileExists(bin) && os.Getenv("VERIF_NO_RACEPASS") == "" {
		test := "TestRace" + prop
		if list, _ := exec.Command(bin, "-test.list", "^"+test+"$").Output(); strings.Contains(string(list), test) {
			// the programs take 1-3 s per run and give up by themselves on most hangs; the test deadline is for the rest
			// (a deadlock inside the library call itself) and is far above anything load can explain
			count, limit := "1", "4m"
			if tier == "thorough" {
				count, limit = "10", "12m"
			}
			t0 := time.Now()
			cmd := exec.Command(bin, "-test.run", "^"+test+"$", "-test.v", "-test.count", count, "-test.timeout", limit)
			cmd.Env = append(os.Environ(), "GORACE=halt_on_error=0")
			out, _ := cmd.CombinedOutput()
			txt := string(out)
			races := strings.Count(txt, "WARNING: DATA RACE")
			failed := strings.Contains(txt, "--- FAIL") || strings.Contains(txt, "panic:")
			iters := 0
			for _, l := range strings.Split(txt, "\n") {
				if i := strings.Index(l, "racepass-iterations="); i >= 0 {
					n, _ := strconv.Atoi(strings.TrimSpace(l[i+len("racepass-iterations="):]))
					if n > iters {
						iters = n
					}
				}
			}
			rp = map[string]any{"ran": true, "test": test, "free_running_iterations": iters, "data_races_reported": races, "failed": failed, "wall_s": time.Since(t0).Seconds(),
				"note": "native (not rewritten) build of the same tree with -race; a sample of free-running executions, supplementary to the exhaustive exploration"}
			if races > 0 || failed {
				path := filepath.Join(replays, prop+"-racepass.log")
				os.WriteFile(path, out, 0o644)
				what := "the race detector reported a data race"
				if races == 0 {
					what = "the free-running pass failed"
				}
				first := ""
				inReport := races == 0
				for _, l := range strings.Split(txt, "\n") {
					if strings.Contains(l, "WARNING: DATA RACE") {
						inReport = true
						continue
					}
					if !inReport {
						continue
					}
					if races > 0 && strings.Contains(l, ".go:") && !strings.Contains(l, "/usr/lib/go") && !strings.Contains(l, "_test.go") && !strings.Contains(l, "<autogenerated>") {
						first = strings.TrimSpace(l)
						break
					}
					if races == 0 && strings.Contains(l, "_test.go:") && !strings.Contains(l, "racepass-iterations") {
						first = strings.TrimSpace(l)
						break
					}
				}
				nviol++
				exit = 1
				lines = append(lines, fmt.Sprintf("VIOLATION property=%s replay=%s", prop, path))
				lines = append(lines, fmt.Sprintf("  racepass %s: %s (%d reports; first location: %.300s)", test, what, races, first))
			}
		}
	}
	if len(samples) == 0 {
		samples = append(samples, "no sample trace recorded")
	}
	if tot.States == 0 {
		tot.States = 1
	}
	ev := map[string]any{
		"property_id": prop,
		"tier":        tier,
		"seed":        envInt("VERIF_SEED"),
		"level":       "model_checking",
		"wall_s":      time.Since(start).Seconds(),
		"violations":  nviol,
		"assumptions": []string{
			"vs runtime model of channels/select/sync/context/timers (validated by engine/selftest against native Go)",
			"source rewriter is semantics preserving (residual scan = 0; repository test-suite passes on the rewritten tree in native mode, bin/selfcheck)",
			"data-race freedom of code between visible operations (state caching and big-step transitions); sampled separately by the free-running -race pass where coverage.racepass.ran is true",
			"bounds as listed per scenario (preemption bound c, fault bound f, scenario sizes)",
		},
		"coverage": map[string]any{
			"states":                        tot.States,
			"transitions":                   max(tot.Transitions, 1),
			"traces_validated_against_impl": tot.Executions,
			"evaluations":                   tot.Executions,
			"distinct_nontrivial":           tot.Nontrivial,
			"distinct_outcomes":             tot.Outcomes,
			"complete_executions":           tot.Complete,
			"rule":                          "every execution is a run of the rewritten implementation under the controlled scheduler (so each explored trace is an implementation trace); an outcome is the observation log + verdict of a complete execution; distinct_nontrivial counts distinct outcomes of executions with more than 3 scheduling decisions or goroutines left alive",
			"samples":                       samples,
			"exhaustive":                    tot.Exhaustive && engineErr == "",
			"horizon_hits":                  tot.HorizonHits,
			"scenarios":                     scens,
			"known_findings_reported":       nknown,
			"racepass":                      rp,
		},
	}
	if rwstats != "" {
		if b, err := os.ReadFile(rwstats); err == nil {
			var rs any
			if json.Unmarshal(b, &rs) == nil {
				ev["coverage"].(map[string]any)["rewriter"] = rs
			}
		}
	}
	if engineErr != "" {
		ev["coverage"].(map[string]any)["engine_errors"] = engineErr
	}
	if evidence != "" {
		os.MkdirAll(filepath.Dir(evidence), 0o755)
		b, _ := json.MarshalIndent(ev, "", " ")
		os.WriteFile(evidence, b, 0o644)
	}
	for _, l := range lines {
		fmt.Println(l)
	}
	fmt.Printf("%s %s: %d scenarios, %d executions, %d states, %d transitions, %d distinct outcomes, exhaustive=%v, %d unlisted violations, %d known, %.1fs\n",
		prop, tier, len(insts), tot.Executions, tot.States, tot.Transitions, tot.Outcomes, tot.Exhaustive, nviol, nknown, time.Since(start).Seconds())
	for _, s := range scens {
		if !s.Exhaustive || s.Capped != "" {
			fmt.Printf("  note: %s not exhaustive (c completed=%d, capped=%q, horizon hits=%d)\n", s.Name, s.C, s.Capped, s.Horizon)
		}
	}
	if engineErr != "" {
		fmt.Fprintln(os.Stderr, "ENGINE ERROR (not a verdict):\n"+engineErr)
		if exit == 0 {
			return 2
		}
	}
	return exit
}

func fileExists(p string) bool {
	_, err := os.Stat(p)
	return err == nil
}

func envInt(k string) int {
	n, _ := strconv.Atoi(os.Getenv(k))
	return n
}

func max(a, b int) int {
	if a > b {
		return a
	}
	return b
}
